"""Sanitizer / interpreter passes of the thorough tier.

Each pass rebuilds the harness (and with it /repo's current working tree: nuts-rs is a path dependency)
under one instrumentation family into its own target directory, repeats the property's workload there and
turns what the tool reported into violations.  One family per build:

  asan  : -Zsanitizer=address (with leak detection where the workload does not leak threads on purpose)
  tsan  : -Zsanitizer=thread with an instrumented std (-Zbuild-std), reports collected with halt_on_error=0
  miri  : cargo miri run on the module's small `--mode miri` workload, several -Zmiri-seed schedules

A pass result is three-valued: "clean" (tool ran the workload to the end and reported nothing), "reports"
(violations attached) or "inconclusive" (build failed, tool crashed, watchdog expired, unsupported operation).
Only "reports" produces VIOLATION lines; "inconclusive" is printed and recorded in the evidence file.

The oracles of the module run inside the instrumented binary too; a violation they find there is reported
like any other (same signatures, same known-findings file).
"""
import glob
import json
import os
import re
import subprocess
import time

ROOT = os.path.dirname(os.path.dirname(os.path.abspath(__file__)))
HARNESS = os.path.join(ROOT, "harness")
TMP = os.path.join(ROOT, "tmp")
TARGET = "x86_64-unknown-linux-gnu"
CFG = "--cfg nuts_rs_verif"

BUILD = {
    "asan": {
        "rustflags": f"{CFG} -Zsanitizer=address -Cforce-frame-pointers=yes",
        "extra": [],
        "dir": os.path.join(ROOT, "target-asan"),
    },
    "tsan": {
        "rustflags": f"{CFG} -Zsanitizer=thread -Cforce-frame-pointers=yes",
        "extra": ["-Zbuild-std"],
        "dir": os.path.join(ROOT, "target-tsan"),
    },
}

# property -> passes (tool, workload tier of the instrumented run, options)
PLAN = {
    "C03": [("asan", {"leaks": True}), ("miri", {"seeds": 4, "tree_borrows": False})],
    "C10": [("tsan", {})],
    "C11": [("tsan", {}), ("miri", {"seeds": 12, "ignore_leaks": True, "tree_borrows": True})],
    "C12": [("tsan", {})],
    "C13": [("tsan", {})],
    "C14": [("asan", {"leaks": False})],
    "C15": [("asan", {"leaks": False}), ("tsan", {})],
    "C17": [("asan", {"leaks": True})],
}

_built = {}


def _env(extra):
    env = dict(os.environ)
    env["CARGO_NET_OFFLINE"] = "true"
    env.update(extra)
    return env


def build(kind):
    """Build the instrumented harness; returns (binary or None, seconds, tail of the build log)."""
    if kind in _built:
        return _built[kind]
    b = BUILD[kind]
    t0 = time.time()
    cmd = ["cargo", "+nightly", "build", "--offline", "--release", "--target", TARGET] + b["extra"]
    p = subprocess.run(cmd, cwd=HARNESS, env=_env({"RUSTFLAGS": b["rustflags"], "CARGO_TARGET_DIR": b["dir"]}),
                       stdout=subprocess.PIPE, stderr=subprocess.STDOUT, text=True)
    binary = os.path.join(b["dir"], TARGET, "release", "nutsverif")
    ok = p.returncode == 0 and os.path.exists(binary)
    _built[kind] = (binary if ok else None, round(time.time() - t0, 1), p.stdout[-1500:])
    return _built[kind]


def _repo_frame(block):
    """First stack frame of a report that lies in nuts-rs (function name, line numbers stripped)."""
    for line in block.splitlines():
        m = re.match(r"\s*#\d+\s+(?:0x[0-9a-f]+\s+in\s+)?(\S.*?)\s+(\S+?)(?::\d+)*\s*(?:\(.*\))?$", line)
        if not m:
            continue
        func, path = m.group(1), m.group(2)
        if "/repo/" in path or "nuts_rs" in func or "nuts_derive" in func or "nuts_storable" in func:
            func = re.sub(r"::h[0-9a-f]{16}$", "", func)
            func = re.sub(r"<[^<>]*>", "<_>", func)
            return func[:120]
    return "outside_nuts_rs"


def _harness_report(path):
    if not os.path.exists(path):
        return None
    try:
        rep = json.load(open(path))
    except Exception:  # noqa: BLE001
        return None
    os.remove(path)
    return rep


def _oracle_violations(rep, kind):
    """Violations the module's own oracles found while running instrumented: they count like any other
    (same signatures, same known-findings file) but are not tool reports."""
    out = []
    if rep is None:
        return out
    seen = set()
    for v in rep.get("violations", []):
        if v["signature"] in seen:
            continue
        seen.add(v["signature"])
        v = dict(v)
        v["count"] = rep.get("violation_counts", {}).get(v["signature"], 1)
        v["detail"] = f"[under {kind}] " + v.get("detail", "")
        out.append(v)
    return out


def _run_instrumented(kind, prop, seed, opts, watchdog):
    binary, build_s, tail = build(kind)
    res = {"tool": kind, "build_s": build_s, "workload": f"{prop.lower()} --tier quick --seed {seed} (same generator as the quick tier)"}
    if binary is None:
        res.update(status="inconclusive", reason="instrumented build failed", detail=tail[-600:])
        return res
    os.makedirs(TMP, exist_ok=True)
    out = os.path.join(TMP, f"{kind}-{prop}-{seed}.json")
    prefix = os.path.join(TMP, f"{kind}-{prop}-{seed}-log")
    for f in glob.glob(prefix + "*"):
        os.remove(f)
    if kind == "asan":
        env = {"ASAN_OPTIONS": f"detect_leaks={1 if opts.get('leaks') else 0}:abort_on_error=0:exitcode=97:log_path={prefix}",
               "LSAN_OPTIONS": "exitcode=98"}
    else:
        env = {"TSAN_OPTIONS": f"halt_on_error=0:exitcode=66:second_deadlock_stack=1:history_size=4:log_path={prefix}"}
    t0 = time.time()
    try:
        p = subprocess.run([binary, prop.lower(), "--tier", "quick", "--seed", str(seed), "--out", out], cwd=ROOT, env=_env(env),
                           stdout=subprocess.PIPE, stderr=subprocess.STDOUT, text=True, timeout=watchdog)
        rc, output = p.returncode, p.stdout
    except subprocess.TimeoutExpired:
        res.update(status="inconclusive", reason=f"watchdog expired after {watchdog}s", run_s=round(time.time() - t0, 1))
        return res
    res["run_s"] = round(time.time() - t0, 1)
    res["exit_status"] = rc
    logs = "".join(open(f, errors="replace").read() for f in sorted(glob.glob(prefix + "*")))
    for f in glob.glob(prefix + "*"):
        os.remove(f)
    rep = _harness_report(out)
    if rep is not None:
        res["evaluations"] = rep.get("evaluations", 0)
        res["distinct_nontrivial"] = rep.get("distinct_nontrivial", 0)
        res["observed"] = rep.get("extra", {})
        res["oracle_violation_signatures"] = rep.get("violation_counts", {})
    violations = []
    if kind == "asan":
        blocks = re.split(r"(?m)^=+\d+=+ERROR: ", logs + "\n" + output)[1:]
        for b in blocks:
            first = b.splitlines()[0] if b else ""
            what = re.sub(r"[^A-Za-z-]+", "_", first.split(" on ")[0].split(":")[-1].strip())[:60] or "report"
            if "LeakSanitizer" in first:
                what = "leak"
            sig = f"{prop}:sanitizer:asan:{what}:{_repo_frame(b)}"
            violations.append({"signature": sig, "detail": b[:1500], "replay": {"sanitizer": "asan", "seed": seed}})
    else:
        blocks = re.split(r"(?m)^WARNING: ThreadSanitizer: ", logs + "\n" + output)[1:]
        for b in blocks:
            first = b.splitlines()[0] if b else ""
            what = re.sub(r"[^A-Za-z-]+", "_", first.split("(pid")[0].strip())[:60] or "report"
            sig = f"{prop}:sanitizer:tsan:{what}:{_repo_frame(b)}"
            violations.append({"signature": sig, "detail": b[:1500], "replay": {"sanitizer": "tsan", "seed": seed}})
    # dedupe by signature, keep counts
    by_sig = {}
    for v in violations:
        if v["signature"] in by_sig:
            by_sig[v["signature"]]["count"] += 1
        else:
            v["count"] = 1
            by_sig[v["signature"]] = v
    res["report_blocks"] = len(violations)
    res["oracle_violations"] = _oracle_violations(rep, kind)
    if by_sig:
        res.update(status="reports", violations=list(by_sig.values()))
    elif rep is None:
        res.update(status="inconclusive", reason=f"instrumented run ended with status {rc} without a report", detail=output[-800:])
    elif rep.get("evaluations", 0) < 1:
        res.update(status="inconclusive", reason="instrumented run observed nothing")
    else:
        res["status"] = "clean"
    return res


def _run_miri(prop, seed, opts, watchdog):
    flags = "-Zmiri-disable-isolation -Zmiri-deterministic-floats"
    if opts.get("tree_borrows"):
        flags += " -Zmiri-tree-borrows"
    if opts.get("ignore_leaks"):
        # the sampler's worker pool and the process-wide rayon pool are still alive when main returns
        flags += " -Zmiri-ignore-leaks"
    target_dir = os.path.join(ROOT, "target-miri")
    n = opts.get("seeds", 4)
    res = {"tool": "miri", "flags": flags, "schedules": n,
           "workload": f"{prop.lower()} --mode miri (small single-process workload of the module), -Zmiri-seed = 0..{n - 1}"}
    os.makedirs(TMP, exist_ok=True)
    t0 = time.time()

    def start(k):
        out = os.path.join(TMP, f"miri-{prop}-{seed}-{k}.json")
        env = _env({"MIRIFLAGS": f"{flags} -Zmiri-seed={k}", "CARGO_TARGET_DIR": target_dir})
        return out, subprocess.Popen(["cargo", "+nightly", "miri", "run", "--offline", "--", prop.lower(), "--mode", "miri", "--seed", str(seed + k), "--out", out],
                                     cwd=HARNESS, env=env, stdout=subprocess.PIPE, stderr=subprocess.STDOUT, text=True)

    def finish(out, proc, left):
        try:
            text, _ = proc.communicate(timeout=max(1, left))
            return proc.returncode, text, _harness_report(out)
        except subprocess.TimeoutExpired:
            proc.kill()
            proc.communicate()
            return None, "", None

    # the first process builds (cargo holds the build lock); the others then run in parallel
    runs = []
    out0, p0 = start(0)
    runs.append(finish(out0, p0, watchdog))
    procs = [start(k) for k in range(1, n)] if runs[0][0] is not None else []
    for out, proc in procs:
        runs.append(finish(out, proc, watchdog - (time.time() - t0)))
    res["run_s"] = round(time.time() - t0, 1)
    by_sig, oracle, evals, distinct, clean, inconclusive = {}, {}, 0, 0, 0, []
    for k, (rc, text, rep) in enumerate(runs):
        if rc is None:
            inconclusive.append(f"schedule {k}: watchdog expired")
            continue
        if rep is not None:
            evals += rep.get("evaluations", 0)
            distinct += rep.get("distinct_nontrivial", 0)
            for v in _oracle_violations(rep, "miri"):
                oracle.setdefault(v["signature"], v)
        m = re.search(r"(?m)^error: (.*)$", text)
        if m:
            msg = m.group(1)
            if msg.startswith("unsupported operation") or "could not compile" in msg or "aborting due to" in msg and "Undefined" not in text:
                inconclusive.append(f"schedule {k}: {msg[:160]}")
                continue
            kind = "undefined_behavior" if "Undefined Behavior" in msg else ("data_race" if "ata race" in msg else ("deadlock" if "deadlock" in msg else "error"))
            if "Data race" in text or "data race" in text:
                kind = "data_race"
            # first frame inside nuts-rs
            frame = "outside_nuts_rs"
            lines_after = text[m.start():].splitlines()
            for li, line in enumerate(lines_after):
                mm = re.search(r"(?:inside|note: inside) `([^`]+)` at (/repo/\S+?):\d+", line)
                if mm:
                    frame = re.sub(r"<[^<>]*>", "<_>", mm.group(1))[:120]
                    break
                # backtrace format "N: function" / "    at /path:line:col"
                if re.match(r"\s+at /repo/\S+?:\d+", line) and li > 0:
                    fm = re.match(r"\s*\d+: (.*)$", lines_after[li - 1])
                    if fm:
                        frame = re.sub(r"<[^<>]*>", "<_>", fm.group(1))[:120]
                        break
            # nuts-rs reaches its dependencies through safe code only (its single unsafe block is the state pool in
            # dynamics/state.rs): a report whose error location and whole backtrace lie outside /repo cannot be
            # caused by nuts-rs; it is a finding about the dependency (or about the experimental aliasing model) and
            # is recorded as inconclusive, not as a violation
            report_text = text[m.start():]
            loc = re.search(r"-->\s+(\S+?):\d+", report_text)
            in_repo = (loc is not None and loc.group(1).startswith("/repo/")) or "/repo/src/dynamics/state.rs" in report_text
            if not in_repo:
                where = loc.group(1) if loc else "unknown location"
                crate = re.search(r"/([a-z0-9_-]+)-\d+\.\d+\.\d+/", where)
                inconclusive.append(f"schedule {k}: {kind} reported inside dependency {crate.group(1) if crate else where} ({msg[:100]}); no frame of the unsafe code of nuts-rs involved")
                continue
            sig = f"{prop}:sanitizer:miri:{kind}:{frame}"
            by_sig.setdefault(sig, {"signature": sig, "detail": text[m.start():m.start() + 1500], "replay": {"sanitizer": "miri", "seed": seed + k, "miri_seed": k}})
        elif rc != 0 and rep is None:
            inconclusive.append(f"schedule {k}: exit status {rc} without a report: {text[-200:]}")
        else:
            clean += 1
    res.update(evaluations=evals, distinct_nontrivial=distinct, schedules_clean=clean, oracle_violations=list(oracle.values()))
    if by_sig:
        res.update(status="reports", violations=list(by_sig.values()))
    elif inconclusive:
        res.update(status="inconclusive", reason="; ".join(inconclusive)[:800])
    else:
        res["status"] = "clean"
    return res


def passes_for(prop):
    out = []
    for kind, opts in PLAN.get(prop, []):
        if kind == "miri":
            out.append((kind, lambda p, s, o=opts: _run_miri(p, s, o, 3600)))
        else:
            out.append((kind, lambda p, s, k=kind, o=opts: _run_instrumented(k, p, s, o, 3600)))
    return out
