"""Sanitizer / interpreter passes of the thorough tier (filled in per property)."""


def passes_for(prop):
    return []
