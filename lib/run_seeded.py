#!/usr/bin/env python3
"""Run the registered checks against seeded changes filed under /verif/seeded/ and record the result.

usage: lib/run_seeded.py [<dir name pattern> ...] [--tier quick|thorough] [--only-missed]

For every /verif/seeded/<id>-<name>/ (optionally filtered by substring) the patch is applied to /repo, the
checks named in meta.json (checks_to_run, default: the property's own check) are run and /repo is restored
(lib/try_mutant.py does that, always). meta.json's checks_run is updated.
"""
import glob
import json
import os
import subprocess
import sys

ROOT = os.path.dirname(os.path.dirname(os.path.abspath(__file__)))


def main():
    args = sys.argv[1:]
    tier, only_missed, pats = "quick", False, []
    i = 0
    while i < len(args):
        if args[i] == "--tier":
            tier = args[i + 1]; i += 1
        elif args[i] == "--only-missed":
            only_missed = True
        else:
            pats.append(args[i])
        i += 1
    for d in sorted(glob.glob(os.path.join(ROOT, "seeded", "*"))):
        name = os.path.basename(d)
        if not os.path.isdir(d) or (pats and not any(p in name for p in pats)):
            continue
        mp = os.path.join(d, "meta.json")
        meta = json.load(open(mp))
        checks = meta.get("checks_to_run") or list(meta.get("checks_run", {}).keys()) or [meta["property"]]
        prev = meta.get("checks_run", {})
        if only_missed and prev and all("DETECTED" in prev.get(c, "") for c in checks[:1]):
            continue
        res = {}
        for c in checks:
            p = subprocess.run(["python3", os.path.join(ROOT, "lib", "try_mutant.py"), os.path.join(d, "patch.diff"), c, "--tier", tier],
                               cwd=ROOT, stdout=subprocess.PIPE, stderr=subprocess.STDOUT, text=True)
            line = [l for l in p.stdout.splitlines() if l.startswith(c + ":")]
            res[c] = line[-1][:600] if line else p.stdout[-300:]
            print(f"{name} {res[c][:260]}", flush=True)
        meta["checks_to_run"] = checks
        meta["checks_run"] = res
        json.dump(meta, open(mp, "w"), indent=1)


if __name__ == "__main__":
    main()
