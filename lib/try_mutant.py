#!/usr/bin/env python3
"""Apply a patch to /repo, run the given quick checks, undo the patch (always).

usage: lib/try_mutant.py <patch.diff> <Cxx> [<Cyy> ...] [--tier quick|thorough] [--tests]

Prints one line per check: DETECTED / missed / broken, and (with --tests) whether the
repository's own test-suite still passes with the patch applied.
"""
import os
import subprocess
import sys

ROOT = os.path.dirname(os.path.dirname(os.path.abspath(__file__)))


def sh(cmd, **kw):
    return subprocess.run(cmd, shell=True, stdout=subprocess.PIPE, stderr=subprocess.STDOUT, text=True, **kw)


def main():
    args = sys.argv[1:]
    patch = os.path.abspath(args[0])
    tier = "quick"
    tests = False
    checks = []
    i = 1
    while i < len(args):
        if args[i] == "--tier":
            tier = args[i + 1]; i += 1
        elif args[i] == "--tests":
            tests = True
        else:
            checks.append(args[i].upper())
        i += 1
    st = sh("git -C /repo status --porcelain")
    if st.stdout.strip():
        print("refusing: /repo has uncommitted changes\n" + st.stdout)
        return 2
    r = sh(f"git -C /repo apply {patch}")
    if r.returncode != 0:
        print("patch does not apply:\n" + r.stdout)
        return 2
    rc = 0
    try:
        if tests:
            t = sh("cd /repo && cargo test --workspace --no-fail-fast --offline 2>&1 | grep -E '^test result|FAILED|error(\\[|:)' | sort | uniq -c")
            print("repo tests with patch:\n" + t.stdout)
        for c in checks:
            p = sh(f"cd {ROOT} && ./check {c} --tier {tier}")
            lines = p.stdout.strip().splitlines()
            viol = [l for l in lines if l.startswith("VIOLATION")]
            sigs = [l.strip() for l in lines if l.strip().startswith("signature:")]
            if p.returncode == 1 and viol:
                print(f"{c}: DETECTED ({len(viol)} signature(s)) {' | '.join(sigs[:4])}")
            elif p.returncode == 0:
                print(f"{c}: missed   {lines[-1] if lines else ''}")
                rc = 1
            else:
                print(f"{c}: broken (exit {p.returncode}) {' / '.join(lines[-3:])}")
                rc = 1
    finally:
        sh("git -C /repo checkout -- . && git -C /repo clean -fdq -e target")
    return rc


if __name__ == "__main__":
    sys.exit(main())
