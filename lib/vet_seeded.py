#!/usr/bin/env python3
"""Vet a seeded defect delivered by a sub-agent and file it under /verif/seeded/.

usage: lib/vet_seeded.py <out_dir> <name> <Cxx> [--features f1,f2] [--checks Cxx,Cyy]

Steps (all in a scratch worktree /tmp/vet/wt of /repo, removed afterwards unless --keep):
  1. demo passes on the unchanged code
  2. patch applies; crate compiles; the pinned test-suite (43 tests + doctests) passes with it
  3. demo fails with the patch
Then the patch is run against the registered checks in /repo (apply, check, undo) and everything is
recorded in /verif/seeded/<Cxx>-<name>/{patch.diff,demo.rs,meta.json}.
"""
import json
import os
import re
import shutil
import subprocess
import sys

ROOT = os.path.dirname(os.path.dirname(os.path.abspath(__file__)))
WT = os.environ.get("VET_WT", "/tmp/vet/wt")  # one scratch worktree per concurrent vetting run


def sh(cmd, cwd=None, timeout=3600):
    p = subprocess.run(cmd, shell=True, cwd=cwd, stdout=subprocess.PIPE, stderr=subprocess.STDOUT, text=True, timeout=timeout)
    return p.returncode, p.stdout


def main():
    a = sys.argv[1:]
    out_dir, name, prop = a[0], a[1], a[2].upper()
    feats, checks, keep, detect = "", [prop], False, True
    i = 3
    while i < len(a):
        if a[i] == "--features":
            feats = a[i + 1]; i += 1
        elif a[i] == "--checks":
            checks = [c.upper() for c in a[i + 1].split(",")]; i += 1
        elif a[i] == "--keep":
            keep = True
        elif a[i] == "--no-detect":
            detect = False  # only vet and file; detection is run later by lib/run_seeded.py
        i += 1
    patch = os.path.join(out_dir, f"{name}.patch.diff")
    demo = os.path.join(out_dir, f"{name}.demo.rs")
    meta_in = os.path.join(out_dir, f"{name}.meta.json")
    meta = json.load(open(meta_in)) if os.path.exists(meta_in) else {}
    if not feats:
        m = re.search(r"--features[ =]([a-z,]+)", json.dumps(meta))
        if m:
            feats = m.group(1)
    fflag = f"--features {feats}" if feats else ""
    log = {}
    if not os.path.exists(WT):
        os.makedirs(os.path.dirname(WT), exist_ok=True)
        rc, o = sh(f"git -C /repo worktree add --detach {WT} HEAD")
        assert rc == 0, o
    sh("git checkout -- . && git clean -fdq -e target", cwd=WT)
    sh("git checkout --detach -q $(git -C /repo rev-parse HEAD)", cwd=WT)
    demo_name = f"demo_{prop.lower()}_{name}"
    shutil.copy(demo, os.path.join(WT, "tests", demo_name + ".rs"))
    test_cmd = f"cargo test --offline {fflag} --test {demo_name} 2>&1 | tail -15"
    rc0, o0 = sh(test_cmd, cwd=WT)
    ok_without = "test result: ok" in o0 and "FAILED" not in o0
    log["demo_without_patch"] = {"cmd": test_cmd, "passes": ok_without, "tail": o0[-600:]}
    rc, o = sh(f"git apply {patch}", cwd=WT)
    log["patch_applies"] = rc == 0
    if rc != 0:
        log["apply_output"] = o[-500:]
    demo_path = os.path.join(WT, "tests", demo_name + ".rs")
    os.remove(demo_path)
    rc1, o1 = sh("cargo test --workspace --no-fail-fast --offline 2>&1 | grep -E '^test result|FAILED|^error' | sort | uniq -c", cwd=WT)
    passed = sum(int(m) for m in re.findall(r"(\d+) passed", o1))
    failed = sum(int(m) for m in re.findall(r"(\d+) failed", o1)) + o1.count("error")
    log["suite_with_patch"] = {"passed": passed, "failed": failed, "output": o1[-600:]}
    shutil.copy(demo, demo_path)
    rc2, o2 = sh(test_cmd, cwd=WT)
    fails_with = "FAILED" in o2 or "panicked" in o2 or "test result: FAILED" in o2
    log["demo_with_patch"] = {"fails": fails_with, "tail": o2[-900:]}
    sh("git checkout -- . && git clean -fdq -e target", cwd=WT)
    valid = ok_without and log["patch_applies"] and failed == 0 and passed >= 45 and fails_with
    log["valid"] = valid
    print(json.dumps({k: (v if not isinstance(v, dict) else {kk: vv for kk, vv in v.items() if kk not in ("tail", "output")}) for k, v in log.items()}, indent=1))
    detection = {}
    if valid:
        for c in (checks if detect else []):
            rc, o = sh(f"python3 {ROOT}/lib/try_mutant.py {patch} {c}", cwd=ROOT)
            line = [l for l in o.splitlines() if l.startswith(c + ":")]
            detection[c] = line[-1][:600] if line else o[-300:]
            print(detection[c])
        dest = os.path.join(ROOT, "seeded", f"{prop}-{name}")
        os.makedirs(dest, exist_ok=True)
        shutil.copy(patch, os.path.join(dest, "patch.diff"))
        shutil.copy(demo, os.path.join(dest, "demo.rs"))
        meta_out = {
            "property": prop,
            "title": meta.get("title", ""),
            "what_breaks": meta.get("what_breaks", ""),
            "needs_to_manifest": meta.get("needs_to_manifest", ""),
            "demo_features": feats,
            "vetting": log,
            "checks_to_run": checks,
            "checks_run": detection,
            "origin": "independent sub-agent given only the property text and a scratch worktree",
        }
        json.dump(meta_out, open(os.path.join(dest, "meta.json"), "w"), indent=1)
    if not keep:
        pass
    return 0 if valid else 1


if __name__ == "__main__":
    sys.exit(main())
