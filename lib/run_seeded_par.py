#!/usr/bin/env python3
"""Run the registered checks against many seeded changes in parallel, without touching /repo.

usage: lib/run_seeded_par.py [<name substring> ...] [--tier quick|thorough] [--only-missed] [--workers N] [--keep]
                             [--mutants]   (also / instead run the hand-made /verif/mutants/*.diff)

Every worker owns a scratch directory /tmp/par/w<k>/ with
    repo/      a git worktree of /repo's HEAD (the seeded patch is applied here)
    harness/   a copy of /verif/harness whose nuts-rs dependency points at ../repo
    target/    its build output
    out/       evidence / replay / tmp of its runs (never /verif/evidence)
and runs `/verif/check <id>` with VERIF_HARNESS_DIR / VERIF_TARGET_BASE / VERIF_OUT_BASE pointing there. The
result goes into /verif/seeded/<id>-<name>/meta.json (checks_run) or, for mutants, is only printed.
The scratch directories are removed at the end (worktrees with `git worktree remove --force`).
"""
import glob
import json
import os
import queue
import re
import shutil
import subprocess
import sys
import threading

ROOT = os.path.dirname(os.path.dirname(os.path.abspath(__file__)))
BASE = "/tmp/par"


def sh(cmd, cwd=None, env=None, timeout=7200):
    p = subprocess.run(cmd, shell=True, cwd=cwd, env=env, stdout=subprocess.PIPE, stderr=subprocess.STDOUT, text=True, timeout=timeout)
    return p.returncode, p.stdout


def setup_worker(k):
    w = os.path.join(BASE, f"w{k}")
    os.makedirs(w, exist_ok=True)
    repo = os.path.join(w, "repo")
    if not os.path.exists(repo):
        rc, o = sh(f"git -C /repo worktree add --detach {repo} HEAD")
        assert rc == 0, o
    else:
        sh("git checkout -q --detach $(git -C /repo rev-parse HEAD) && git checkout -- . && git clean -fdq", cwd=repo)
    h = os.path.join(w, "harness")
    if os.path.exists(h):
        shutil.rmtree(h)
    shutil.copytree(os.path.join(ROOT, "harness"), h, ignore=shutil.ignore_patterns("target*"))
    ct = open(os.path.join(h, "Cargo.toml")).read()
    ct = ct.replace('path = "/repo/nuts-storable"', f'path = "{repo}/nuts-storable"').replace('path = "/repo"', f'path = "{repo}"')
    open(os.path.join(h, "Cargo.toml"), "w").write(ct)
    cfg = open(os.path.join(h, ".cargo", "config.toml")).read()
    cfg = re.sub(r'target-dir = "[^"]*"', f'target-dir = "{w}/target"', cfg)
    open(os.path.join(h, ".cargo", "config.toml"), "w").write(cfg)
    os.makedirs(os.path.join(w, "out"), exist_ok=True)
    return w


def run_one(w, patch, checks, tier):
    repo = os.path.join(w, "repo")
    sh("git checkout -- . && git clean -fdq", cwd=repo)
    rc, o = sh(f"git apply {patch}", cwd=repo)
    if rc != 0:
        return {c: f"{c}: patch does not apply: {o[-200:]}" for c in checks}
    env = dict(os.environ)
    env.update({"VERIF_HARNESS_DIR": os.path.join(w, "harness"), "VERIF_TARGET_BASE": w, "VERIF_OUT_BASE": os.path.join(w, "out")})
    res = {}
    for c in checks:
        rc, out = sh(f"{ROOT}/check {c} --tier {tier}", cwd=ROOT, env=env)
        lines = out.strip().splitlines()
        viol = [l for l in lines if l.startswith("VIOLATION")]
        sigs = [l.strip() for l in lines if l.strip().startswith("signature:")]
        if rc == 1 and viol:
            res[c] = f"{c}: DETECTED ({len(viol)} signature(s)) {' | '.join(sigs[:4])}"[:600]
        elif rc == 0:
            res[c] = f"{c}: missed   {lines[-1] if lines else ''}"[:600]
        else:
            res[c] = f"{c}: broken (exit {rc}) {' / '.join(lines[-3:])}"[:600]
    sh("git checkout -- . && git clean -fdq", cwd=repo)
    return res


def main():
    args = sys.argv[1:]
    tier, only_missed, pats, workers, mutants, keep = "quick", False, [], 4, False, False
    i = 0
    while i < len(args):
        if args[i] == "--tier":
            tier = args[i + 1]; i += 1
        elif args[i] == "--workers":
            workers = int(args[i + 1]); i += 1
        elif args[i] == "--only-missed":
            only_missed = True
        elif args[i] == "--mutants":
            mutants = True
        elif args[i] == "--keep":
            keep = True  # leave /tmp/par in place (build output is reused by the next run); remove it when done
        else:
            pats.append(args[i])
        i += 1
    jobs = queue.Queue()
    if mutants:
        for m in sorted(glob.glob(os.path.join(ROOT, "mutants", "*.diff"))):
            name = os.path.basename(m)
            if pats and not any(p in name for p in pats):
                continue
            jobs.put(("mutant", name, m, [name[:3].upper()], None))
    else:
        for d in sorted(glob.glob(os.path.join(ROOT, "seeded", "*"))):
            name = os.path.basename(d)
            if not os.path.isdir(d) or (pats and not any(p in name for p in pats)):
                continue
            mp = os.path.join(d, "meta.json")
            meta = json.load(open(mp))
            checks = meta.get("checks_to_run") or list(meta.get("checks_run", {}).keys()) or [meta["property"]]
            prev = meta.get("checks_run", {})
            if only_missed and prev and any("DETECTED" in prev.get(c, "") for c in checks):
                continue
            jobs.put(("seeded", name, os.path.join(d, "patch.diff"), checks, mp))
    n = jobs.qsize()
    print(f"{n} changes, {workers} workers, tier {tier}", flush=True)
    lock = threading.Lock()

    def worker(k):
        w = setup_worker(k)
        while True:
            try:
                kind, name, patch, checks, mp = jobs.get_nowait()
            except queue.Empty:
                return
            res = run_one(w, patch, checks, tier)
            with lock:
                for c in checks:
                    print(f"{name} {res[c][:300]}", flush=True)
                if mp:
                    meta = json.load(open(mp))
                    meta["checks_to_run"] = checks
                    meta["checks_run"] = res
                    json.dump(meta, open(mp, "w"), indent=1)

    off = int(os.environ.get("PAR_FIRST_WORKER", "0"))  # lets two invocations run side by side (w<off>..)
    ts = [threading.Thread(target=worker, args=(k + off,)) for k in range(min(workers, max(n, 1)))]
    for t in ts:
        t.start()
    for t in ts:
        t.join()
    for k in range(0 if keep else workers):
        w = os.path.join(BASE, f"w{k + off}")
        if os.path.exists(os.path.join(w, "repo")):
            sh(f"git -C /repo worktree remove --force {w}/repo")
        shutil.rmtree(w, ignore_errors=True)
    sh("git -C /repo worktree prune")


if __name__ == "__main__":
    main()
