"""Shared driver code: build, run, known findings, evidence."""
import json
import os
import re
import subprocess
import sys
import time

ROOT = os.path.dirname(os.path.dirname(os.path.abspath(__file__)))
# The registered commands use the defaults. lib/run_seeded_par.py points a worker at its own copy of the harness
# (whose nuts-rs dependency is a scratch worktree carrying a seeded change) and at a scratch output directory.
HARNESS = os.environ.get("VERIF_HARNESS_DIR", os.path.join(ROOT, "harness"))
OUT_BASE = os.environ.get("VERIF_OUT_BASE", ROOT)
EVIDENCE = os.path.join(OUT_BASE, "evidence")
REPLAY = os.path.join(OUT_BASE, "replay")
FINDINGS = os.path.join(ROOT, "known_findings.txt")

ENV = dict(os.environ)
ENV.update({"CARGO_NET_OFFLINE": "true", "CARGO_TERM_COLOR": "never"})

# property -> (level, quick watchdog seconds, thorough watchdog seconds)
PROPERTIES = {
    "C01": ("exploration", 900, 7200),
    "C02": ("exploration", 900, 7200),
    "C03": ("exploration", 900, 7200),
    "C04": ("exploration", 1800, 14400),
    "C05": ("fault_enumeration", 900, 7200),
    "C06": ("exploration", 900, 7200),
    "C07": ("exploration", 900, 7200),
    "C08": ("exploration", 900, 7200),
    "C09": ("exploration", 900, 7200),
    "C10": ("exploration", 900, 7200),
    "C11": ("exploration", 900, 7200),
    "C12": ("exploration", 900, 7200),
    "C13": ("fault_enumeration", 900, 7200),
    "C14": ("exploration", 900, 7200),
    "C15": ("fault_enumeration", 900, 7200),
    "C16": ("exploration", 900, 7200),
    "C17": ("exploration", 900, 7200),
    "C18": ("exploration", 900, 7200),
    "C19": ("exploration", 900, 7200),
}


def target_dir(kind="release"):
    base = os.environ.get("VERIF_TARGET_BASE", ROOT)
    return os.path.join(base, "target" if kind == "release" else f"target-{kind}")


def build_release():
    """cargo build --release of the harness; nuts-rs is a path dependency on /repo."""
    env = dict(ENV)
    env["CARGO_TARGET_DIR"] = target_dir()
    p = subprocess.run(
        ["cargo", "build", "--release", "--offline"],
        cwd=HARNESS, env=env, stdout=subprocess.PIPE, stderr=subprocess.STDOUT, text=True,
    )
    return p.returncode == 0, p.stdout


def binary():
    return os.path.join(target_dir(), "release", "nutsverif")


def load_findings():
    """known_findings.txt lines:
         open: property=<id> sig=<signature> <what fails>
         fixed: property=<id> <commit> <what failed>
       Only `open:` lines suppress anything; they are matched on the exact signature."""
    open_f = {}
    if os.path.exists(FINDINGS):
        for line in open(FINDINGS):
            line = line.strip()
            m = re.match(r"open:\s+property=(\S+)\s+sig=(\S+)\s*(.*)", line)
            if m:
                open_f[(m.group(1), m.group(2))] = m.group(3)
    return open_f


def run_binary(prop, tier, seed, replay, timeout, mode=None, exe=None, extra_env=None, runner=None):
    """Run the harness binary for one property; returns (report dict or None, status string)."""
    os.makedirs(os.path.join(OUT_BASE, "tmp"), exist_ok=True)
    out = os.path.join(OUT_BASE, "tmp", f"report-{prop}-{tier}-{mode or 'main'}-{os.getpid()}.json")
    if os.path.exists(out):
        os.remove(out)
    cmd = (runner or []) + [exe or binary(), prop.lower(), "--tier", tier, "--seed", str(seed), "--out", out]
    if replay:
        cmd += ["--replay", replay]
    if mode:
        cmd += ["--mode", mode]
    env = dict(ENV)
    if extra_env:
        env.update(extra_env)
    try:
        p = subprocess.run(cmd, cwd=ROOT, env=env, timeout=timeout,
                           stdout=subprocess.PIPE, stderr=subprocess.STDOUT, text=True, errors="replace")
    except subprocess.TimeoutExpired as e:
        return None, f"watchdog expired after {timeout}s", (e.stdout or b"")[-3000:] if isinstance(e.stdout, (bytes, str)) else ""
    if not os.path.exists(out):
        return None, f"harness exited with status {p.returncode} without a report", p.stdout[-6000:]
    try:
        rep = json.load(open(out))
    except Exception as e:  # noqa: BLE001
        return None, f"unreadable report: {e}", p.stdout[-3000:]
    os.remove(out)
    rep["_exit_status"] = p.returncode
    rep["_output_tail"] = p.stdout[-2000:]
    return rep, "ok", p.stdout[-3000:]


def write_evidence(prop, tier, seed, level, rep, wall, n_viol, passes):
    os.makedirs(EVIDENCE, exist_ok=True)
    cov = {
        "evaluations": int(rep.get("evaluations", 0)),
        "distinct_nontrivial": int(rep.get("distinct_nontrivial", 0)),
        "rule": rep.get("rule", ""),
        "samples": rep.get("samples", []),
        "exhaustive": bool(rep.get("exhaustive", False)),
        "inconclusive_cases": rep.get("inconclusive", {}),
        "observed": rep.get("extra", {}),
        "violation_signatures": rep.get("violation_counts", {}),
        "sanitizer_passes": passes,
    }
    if not cov["samples"] and cov["evaluations"] > 0:
        # every module records concrete cases; this only keeps the record well-formed if one run happened to hit none
        cov["samples"] = [{"note": "no individual case was sampled in this run; aggregate counters only", "observed": cov["observed"]}]
    ev = {
        "property_id": prop,
        "tier": tier,
        "seed": seed,
        "level": level,
        "coverage": cov,
        "assumptions": rep.get("assumptions", []),
        "wall_s": round(wall, 3),
        "violations": n_viol,
    }
    path = os.path.join(EVIDENCE, f"{prop}.json")
    tmp = path + ".tmp"
    with open(tmp, "w") as f:
        json.dump(ev, f, indent=1, default=str)
    os.replace(tmp, path)
    return path


def run_check(prop, tier, seed, replay, t0):
    level, wq, wt = PROPERTIES[prop]
    timeout = wt if tier == "thorough" else wq
    rep, status, tail = run_binary(prop, tier, seed, replay, timeout)
    if rep is None:
        print(tail)
        print(f"INCONCLUSIVE: property={prop} {status} (not a verdict)")
        return 2
    passes = []
    if tier == "thorough" and not replay:
        import sanitizers
        for name, fn in sanitizers.passes_for(prop):
            res = fn(prop, seed)
            passes.append({k: v for k, v in res.items() if k not in ("violations", "oracle_violations")}
                          | {"violation_signatures": [v["signature"] for v in res.get("violations", [])],
                             "oracle_violation_signatures": sorted(v["signature"] for v in res.get("oracle_violations", []))})
            print(f"PASS {name}: status={res.get('status')} " + " ".join(f"{k}={res[k]}" for k in ("build_s", "run_s", "evaluations", "report_blocks", "schedules", "schedules_clean", "reason") if k in res))
            for v in res.get("violations", []) + res.get("oracle_violations", []):
                if any(w["signature"] == v["signature"] for w in rep["violations"]):
                    continue
                rep["violations"].append(v)
                rep.setdefault("violation_counts", {})[v["signature"]] = v.get("count", 1)
    open_f = load_findings()
    new = []
    known = []
    for v in rep.get("violations", []):
        key = (prop, v["signature"])
        if key in open_f:
            known.append((v, open_f[key]))
        else:
            new.append(v)
    # every signature counted in the report must be accounted for, even if its payload was dropped
    for sig in rep.get("violation_counts", {}):
        if (prop, sig) not in open_f and not any(v["signature"] == sig for v in new):
            new.append({"signature": sig, "detail": "(payload dropped)", "replay": {}})
    seen = set()
    for v, what in known:
        if v["signature"] in seen:
            continue
        seen.add(v["signature"])
        print(f"KNOWN-FINDING: property={prop} {v['signature']} {what}")
    rc = 0
    if new:
        os.makedirs(REPLAY, exist_ok=True)
        seen = set()
        for n, v in enumerate(new):
            if v["signature"] in seen:
                continue
            seen.add(v["signature"])
            path = os.path.join(REPLAY, f"{prop}-{tier}-{seed}-{len(seen)}.json")
            with open(path, "w") as f:
                json.dump({"property": prop, "signature": v["signature"], "detail": v["detail"],
                           "replay": v.get("replay", {})}, f, indent=1)
            print(f"VIOLATION property={prop} replay={path}")
            print(f"  signature: {v['signature']}")
            print(f"  detail: {v['detail'][:1500]}")
        rc = 1
    wall = time.time() - t0
    observed_nothing = rep.get("evaluations", 0) < 1 or rep.get("distinct_nontrivial", 0) < 2
    if not replay:
        path = write_evidence(prop, tier, seed, level, rep, wall, len(new), passes)
    inc = rep.get("inconclusive", {})
    print(f"{prop} {tier} seed={seed}: evaluations={rep.get('evaluations')} distinct_nontrivial={rep.get('distinct_nontrivial')} "
          f"violations={len(new)} known_findings={len(set(v['signature'] for v, _ in known))} inconclusive={sum(inc.values()) if inc else 0} wall={wall:.1f}s")
    if rc == 0 and observed_nothing and not replay:
        print(f"BROKEN: property={prop} the monitors observed nothing (not a verdict)")
        return 2
    # a run in which most cases were screened out as inconclusive decided (almost) nothing: on the unchanged tree the
    # largest share is about a quarter (C01, degenerate U-turn decisions); a change that pushes every case into a
    # screening rule must not read as "held" (seeded change C01-i did exactly that before the zero-span rule)
    n_inc = sum(inc.values()) if inc else 0
    if rc == 0 and not replay and rep.get("evaluations", 0) > 0 and n_inc > 0.6 * rep.get("evaluations", 0):
        print(f"BROKEN: property={prop} {n_inc} of {rep.get('evaluations')} cases were inconclusive: nothing decided (not a verdict)")
        return 2
    return rc
