#!/usr/bin/env python3
"""Regenerates /verif/MANIFEST.json from the table below (run after adding a check)."""
import json
import os
import subprocess

ROOT = os.path.dirname(os.path.dirname(os.path.abspath(__file__)))

# id -> (category, technique, level text, level note, design ref)
CHECKS = {
    "C17": (
        "exploration",
        "differential runtime monitor: SIMD kernels vs double-double scalar reference, sentinel/canary buffers",
        "Every kernel of math::util (hook-exported, called with pulp Arch::Scalar and the detected AVX2 arch on sub-slices at "
        "offsets 0..7 inside canary-padded buffers) and every vector method of CpuMath is executed for all lengths 0..=130 x 8 "
        "value classes and compared element by element (2 ulp, fused or unfused) or under a running error bound (reductions) "
        "with a double-double reference; outputs are pre-filled with a sentinel NaN payload and inputs check-summed. "
        "Exhaustive over (n, offset, class, arch) in the thorough tier, random fillings per tuple.",
        "Trusted: the harness' double-double reference and error bounds; AVX-512 kernels are not compiled into this crate's "
        "pulp feature set and are not exercised.",
        "DESIGN.md §3 C17",
    ),
}

NOT_YET = {}


def main():
    props = [json.loads(l) for l in open(os.path.join(ROOT, "properties.jsonl"))]
    try:
        hook_commits = subprocess.run(
            ["git", "-C", "/repo", "log", "--format=%H", "--grep", "verification hooks", "-i"],
            stdout=subprocess.PIPE, text=True).stdout.split()
    except Exception:  # noqa: BLE001
        hook_commits = []
    checks = []
    for p in props:
        pid = p["id"]
        if pid not in CHECKS:
            continue
        cat, tech, text, note, ref = CHECKS[pid]
        checks.append({
            "property_id": pid,
            "quick_cmd": f"./check {pid} --tier quick",
            "thorough_cmd": f"./check {pid} --tier thorough",
            "evidence_file": f"/verif/evidence/{pid}.json",
            "replay_cmd_template": f"./check {pid} --replay {{path}}",
            "engine": "nutsverif",
            "level_claimed": {"category": cat, "text": text, "design_ref": ref},
            "level_note": note,
            "technique": tech,
        })
    na = [{"property_id": p["id"], "reason": NOT_YET.get(p["id"], "check not built yet in this round (work in progress; see DESIGN.md for the planned monitor)")}
          for p in props if p["id"] not in CHECKS]
    manifest = {
        "version": 1,
        "setup_cmd": "cd /verif/harness && CARGO_NET_OFFLINE=true cargo build --release --offline",
        "hooks": {
            "guard": "--cfg nuts_rs_verif",
            "enable": "RUSTFLAGS=\"--cfg nuts_rs_verif\" (set in /verif/harness/.cargo/config.toml; nuts-rs is a path dependency on /repo)",
            "baseline_off_cmd": "cd /repo && cargo test --workspace --no-fail-fast --offline",
            "source_commits": hook_commits,
            "add_only": True,
        },
        "engines": [{
            "name": "nutsverif",
            "path": "/verif/harness",
            "serves_properties": [c["property_id"] for c in checks],
            "kind_free_text": "Rust harness (runtime monitors, scripted RNG / Math, fault injection, schedule controller) + python driver /verif/check; thorough tier adds Miri / TSan / ASan passes",
        }],
        "checks": checks,
        "not_applicable": na,
        "notes": "Technique family: runtime monitoring and sanitizers. See DESIGN.md. Known findings: /verif/known_findings.txt.",
    }
    with open(os.path.join(ROOT, "MANIFEST.json"), "w") as f:
        json.dump(manifest, f, indent=1)
    print(f"wrote MANIFEST.json with {len(checks)} checks, {len(na)} not_applicable")


if __name__ == "__main__":
    main()
