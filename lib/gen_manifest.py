#!/usr/bin/env python3
"""Regenerates /verif/MANIFEST.json from the table below (run after adding a check)."""
import json
import os
import subprocess
import sys

sys.path.insert(0, os.path.dirname(os.path.abspath(__file__)))
import sanitizers  # noqa: E402

ROOT = os.path.dirname(os.path.dirname(os.path.abspath(__file__)))

# id -> (category, technique, level text, level note, design ref)
CHECKS = {
    "C17": (
        "exploration",
        "differential runtime monitor: SIMD kernels vs double-double scalar reference, sentinel/canary buffers",
        "Every kernel of math::util (hook-exported, called with pulp Arch::Scalar and the detected AVX2 arch on sub-slices at "
        "offsets 0..7 inside canary-padded buffers) and every vector method of CpuMath is executed for all lengths 0..=130 x 8 "
        "value classes (low-rank application with ranks going up and down on one math object; sums of squares of nearly cancelling vectors) "
        "and compared element by element (2 ulp, fused or unfused) or under a running error bound (reductions) "
        "with a double-double reference; outputs are pre-filled with a sentinel NaN payload and inputs check-summed. "
        "Exhaustive over (n, offset, class, arch) in the thorough tier, random fillings per tuple.",
        "Trusted: the harness' double-double reference and error bounds; AVX-512 kernels are not compiled into this crate's "
        "pulp feature set and are not exercised.",
        "DESIGN.md §3 C17",
    ),
}

CHECKS.update({
    "C06": (
        "exploration",
        "runtime monitor over configurations: per-draw assertions on tuning flag, frozen transformation and step-size band",
        "Real chains of all six presets are run for num_tune+30 draws over num_tune 0..=40 (exhaustive) and seeded values up to 2000, "
        "random step-size method / jitter / window fractions / switch, update frequencies / growth factors and three targets "
        "(divergent histories included); every draw is checked: Progress.tuning and the tuning statistic equal draw < num_tune, "
        "construction never panics, no transformation change or update event from the exact start of the final step-size window "
        "(same floating point expression as the strategy), also when a divergence is forced on draw num_tune-1 / num_tune / num_tune+1, step_size_bar bit-constant from draw num_tune-1, every later step size inside bar*[1-j,1+j].",
        "Observes only the public Chain API (Progress, statistics). The start of the final window is recomputed from the settings.",
        "DESIGN.md §3 C06",
    ),
    "C16": (
        "exploration",
        "runtime monitor: declared schema vs Storable::get_all of every draw over all option sets",
        "For 6 presets x 32 store_* option sets x dimensions {0,1,3,17} x 3 targets (scaled Gaussian, funnel with a tight energy limit, Gaussian with "
        "injected NaN / +-inf log densities, NaN / inf gradients and recoverable errors; 55 draws, warmup with transformation updates "
        "and divergences with and without a finite energy error) every draw's statistics are compared with Settings::stat_names/types/dims/event_dims: names and "
        "order, declared type, length = product of declared dims, non-event statistics on every draw or none (and following their "
        "option), event statistics only on event draws with their identifying fields, divergence fields <=> Progress.diverging, "
        "transformation-update events <=> the next trajectory runs under a different transformation id, every transformation a draw starts "
        "from was announced by an update event (also across a second set_position in the middle of a history and with num_tune = 0), a "
        "change of the scales (hook read-back) always carries the event, counters +1 (also across failed draw calls), chain constant.",
        "Public API only. Option -> statistic mapping (gradient, unconstrained_draw, transformed_*, mass-matrix payload) is part of the oracle.",
        "DESIGN.md §3 C16",
    ),
    "C19": (
        "exploration",
        "runtime monitor: serde round trips on randomised settings + bit-identical chain replay + Zarr attribute read-back",
        "Every leaf of every preset's settings is replaced by random finite values (full f64 range, subnormals, u64 extremes, all "
        "enum variants, null/number options); from_value/to_value and to_string/from_str/to_string must be identical. Chains built "
        "from original, value- and string-round-tripped valid settings with one seed must give bit-identical draws and statistics "
        "(45 draws). The sampler_settings attribute written by ZarrConfig::new_trace must equal to_value(settings).",
        "serde_json is the JSON implementation on both sides (a symmetric serde_json defect would be invisible).",
        "DESIGN.md §3 C19",
    ),
})

CHECKS.update({
    "C02": (
        "exploration",
        "differential runtime monitor: real leapfrog (hook) vs dense-matrix reference; reversibility, Jacobian, order, exactness",
        "The hook-exported Hamiltonian::leapfrog of TransformedHamiltonian with explicit diagonal / low-rank transformations "
        "(rank 0..d, d in {1..64}) is executed with scripted momentum in both directions and compared with a naive dense-matrix "
        "leapfrog in the original space (M^-1 = F F^T), with its own inverse (forward then backward), with a finite-difference "
        "Jacobian determinant, with the second-order energy error law over 8/16/32 steps, and with exact energy conservation "
        "of the ExactNormal integrator on the Gaussian whitened by the transformation; transformation inverse, gradient "
        "pull-back (also vs finite differences) and log-determinant are compared with a dense LU. The transformations that the "
        "sampler's own adaptation builds in real chains (ordinary scales and scales beyond the 1e-10..1e10 clamp) are checked as "
        "bijections on every reported point (x = std*y + mean, grad_y = std*grad_x, std*inv_std = 1, log-determinant).",
        "Trusted: the harness' dense reference; tolerances 1e-9 relative (inverse: 1e-8 plus 500 eps times the measured amplification of the backward step). ESH reversibility only for "
        "moderate contraction (inconclusive otherwise).",
        "DESIGN.md §3 C02",
    ),
})

CHECKS.update({
    "C01": (
        "exploration",
        "runtime monitor with scripted RNG: exact black-box extraction of the NUTS transition kernel, detailed balance over all state pairs",
        "The hook-exported nuts::draw runs on a TransformedHamiltonian with explicit diagonal / low-rank transformation; momentum and "
        "every random word are scripted. For each configuration the exact kernel P(z_a -> .) is measured from every state a of the "
        "orbit segment by enumerating all direction sequences and all outcomes of the selection draws and bisecting each selection "
        "threshold on the scripted 64-bit word (no probability is read from the implementation). Oracles: kernel sums to 1, "
        "pi(z_a)P(a->b) = pi(z_b)P(b->a) for all pairs with energies computed by the harness, trajectories containing both states have "
        "the same interval / depth / stop reason / weight from either start, direction threshold exactly 1/2. Exhaustive over RNG "
        "decisions per configuration for maxdepth 2..3 (4 in thorough).",
        "Densities, dimensions (1..6), step sizes and transformations are sampled; configurations with divergences, energy spread > 50 or "
        "a U-turn product within 1e-7 of zero are inconclusive (a criterion on two bit-identical end states is an exact zero and is not screened). Absolute tolerance 64 eps * (pi_a + pi_b) for cancellation in 1 - exp(.).",
        "DESIGN.md §3 C01",
    ),
    "C03": (
        "exploration",
        "runtime monitor: per-draw invariants against a density evaluation log + U-turn audit of recorded trajectories (hook, scripted RNG)",
        "Public API: chains of all six presets over 5 target families, dims 0..36, random maxdepth / mindepth / target time / energy limit / "
        "step size method (dual averaging, Adam, fixed) / extra doublings; "
        "every draw must be the previous position or a position evaluated in that call, carry the logged logp / gradient, be reproducible by an "
        "independent density instance, satisfy index 0 <=> not moved, depth <= maxdepth, 2^depth-1 <= steps <= 2^(depth+1)-1, |index| <= 2^depth-1, "
        "steps = density evaluations, at least one step, finite energies. Audit: single transitions with a recording collector; the U-turn "
        "criterion is recomputed for the whole trajectory and every balanced sub-trajectory: never merged past a U-turn, never stopped without "
        "one, maxdepth flag iff it was the only stop reason, returned state inside the accepted tree, held state buffers unchanged.",
        "Audit runs with default tree options (mindepth 0, check_turning, no extra doublings); cross-spans the implementation documents count as "
        "legitimate stopping spans. Degenerate U-turn products (1e-7) are inconclusive.",
        "DESIGN.md §3 C03",
    ),
})

CHECKS.update({
    "C05": (
        "fault_enumeration",
        "fault injection at every density evaluation index x fault kind, runtime oracle on call results",
        "A scenario (set_position - retried once on the same chain when refused, as the sampler does - + draws through warmup into sampling + 10 "
        "follow-up draws) per preset x kinetic/trajectory kind x option variant (extra doublings, fixed step, draw-only scale estimate) x "
        "dimension x (MCLMC) dynamic step size is run once fault-free; then every evaluation index is combined with each of 7 fault "
        "kinds (recoverable / unrecoverable error, NaN / +inf / -inf logp, NaN / inf gradient component) - exhaustive for single "
        "faults, seeded for pairs. Each call runs under catch_unwind. Oracles: no panic; the call evaluating an unrecoverable error "
        "returns Err; a recoverable fault at a leapfrog makes the draw divergent (MCLMC dynamic: or retried with more evaluations than "
        "steps); returned position finite, logp finite, equal to an un-faulted evaluated state; MCLMC divergent draws do not move; "
        "step size positive finite; recoverable faults never make a later call fail; the chain is not stuck divergent afterwards.",
        "An invalid *initial point* may be refused by set_position. The site of a fault (trajectory vs step-size search) is taken from "
        "the fault-free run for the first faulted call (runs are deterministic up to the first fault) and from the faulted trace itself for the "
        "re-evaluation of an already evaluated point (re-run of the step size search).",
        "DESIGN.md §3 C05",
    ),
})

CHECKS.update({
    "C07": (
        "exploration",
        "runtime monitor: real DualAverage / Adam / initial search (hook) vs recurrence, metamorphic monotonicity and re-measured bracket; closed-loop statistic",
        "Open loop: the real DualAverage and Adam objects are driven with seven families of acceptance sequences (all-0, all-1, alternating, "
        "uniform, random walk, long extreme runs, realistic; up to 2000 updates) under random options: agreement with the documented recurrence, "
        "0 < step <= max_step_size and finite after every update, metamorphic monotonicity (pointwise larger acceptance never gives a smaller "
        "later current or averaged step), Adam moves up exactly when the bias-corrected smoothed acceptance exceeds the target. Initial search: "
        "the real Strategy::init runs with scripted momentum; the bracket (acceptance at the final step on one side of the target, at half / double "
        "on the other) is re-measured with the real integrator, fall-backs are only accepted if a trial on the search path really fails. Adam inside "
        "real chains: every warmup update of the step size is replayed from the reported statistics (asymmetric statistic before, symmetric one inside "
        "the final window, restart after a successful re-run of the search; direction follows the smoothed acceptance). Closed "
        "loop: adapted chains on Gaussians, post-warmup mean symmetric acceptance within 0.3 + 6 se of the target, confirmation on fresh seeds.",
        "The closed-loop oracle is statistical (tolerance calibrated on the unchanged tree, confirmation stage); it detects gross mis-steering only.",
        "DESIGN.md §3 C07",
    ),
})

CHECKS.update({
    "C08": (
        "exploration",
        "runtime monitor: real estimators (hook) on synthetic windows; exactness on Gaussians, hostile windows with scale read-back, end-to-end whitening",
        "The real DiagAdaptStrategy and LowRankMassMatrixStrategy are fed through their collector with synthetic windows and the resulting "
        "transformation is read back: (1) diagonal Gaussians, any placement of 3..42 points: stds = sigma and mean = mu to rounding, inverse "
        "scales and log-determinant consistent; (2) dense Gaussians with more points than dimensions: whitened gradient = -whitened position "
        "at fresh points; (3) 12 x 12 classes of hostile windows (constant, zero, 1e+-300, NaN, inf, identical rows, wild magnitudes, one column beyond the clamp of "
        "the scale estimate, in draws and/or gradients) after a sane window: every std / inverse std / sqrt eigenvalue finite and > 0, std * inverse "
        "std = 1 (also where clamped), log-determinant finite and consistent, non-finite "
        "input keeps the previous value, no panic, no hang (60 s on a helper thread); (4) adapted chains with store_transformed: "
        "|y + grad_y| / |y| small after 150 warmup draws, scales positive finite at every draw, fisher_distance statistic consistent, and every "
        "estimate that a diagonal chain installs on a diagonal Gaussian (any window of >= 3 points) is exact.",
        "Low-rank exactness uses eigval_cutoff = 1, gamma = 1e-12 (default cutoff deliberately drops eigenvalues in [1/2,2]). Tolerances scale with the condition number.",
        "DESIGN.md §3 C08",
    ),
})

CHECKS.update({
    "C09": (
        "exploration",
        "runtime monitor: window bookkeeping read after every draw of real chains (hook accessor) vs schedule model; dual-averaging replay from reported statistics",
        "Real Diag/LowRank chains (NUTS and MCLMC) with num_tune 20..1200 and random early_window, step_size_window, switch / early switch / "
        "update frequencies and growth factors run on iso / scaled / funnel targets with seeded recoverable faults. After every draw the "
        "foreground / background estimator counts and window size are read and compared with a schedule model: counts grow by one exactly on "
        "accepted draws (not on stuck or near-start divergent draws), a switch moves the background into the foreground and empties it, happens "
        "only with a full window (early size, then geometrically growing sizes) and only if another full window fits before the final "
        "step-size window, is not skipped when due, the window grows by the configured factor, nothing is fed in the final window, the first "
        "transformation change costs extra density evaluations (re-run search), and dual averaging replayed from the reported acceptance "
        "statistics reproduces step_size_bar - with the symmetric statistic inside the final window; the same replay for the Adam method. For the "
        "diagonal presets the contents of both windows are tracked (positions and gradients of the counted draws) and every installed estimate is "
        "recomputed from the window in use alone (ratio of draw and gradient variance, or the draw variance with the draw-only option).",
        "+-1 draw slack on window boundaries; far-from-start divergent draws may count either way; before the final window either statistic is accepted in the replay.",
        "DESIGN.md §3 C09",
    ),
})

CHECKS.update({
    "C18": (
        "exploration",
        "runtime monitor: delegating Math wrapper records every ESH / normalise / gaussian call of real MCLMC chains; closed-form and accounting oracles",
        "Real MCLMC chains (three presets, dims 2..10, random step size, decoherence length, subsample frequency, trajectory kind, switch "
        "fraction, dynamic step size, jitter, energy limit; iso / scaled / funnel targets; seeded recoverable faults at random evaluation "
        "indices) run over a Math wrapper that records every call: each esh_momentum_update has unit-norm momentum on entry and exit and "
        "equals the closed-form ESH update and kinetic energy change; array_normalize outputs have unit norm; non-divergent draws take "
        "max(1, round(f L / eps)) steps for the step size in force (at least that many under dynamic retry) and report an energy change equal to the "
        "sum of the kinetic energy changes of their ESH updates minus the change of the log density; divergent draws leave the position "
        "bit-identical and end with a freshly drawn (and normalised) momentum that is the state's momentum; the first ESH call happens exactly at "
        "draw floor(fraction * num_tune) after a fresh gaussian + normalise, and never reverts.",
        "The closed-form ESH reference is the formula documented on the Math trait, re-implemented in the harness.",
        "DESIGN.md §3 C18",
    ),
})

CHECKS.update({
    "C04": (
        "exploration",
        "statistical runtime monitor: z-tests of moments / quantile coverage of adapted chains with replication stage; momentum-law tests at the Math boundary",
        "All combinations {Diag, LowRank} x {Euclidean, ExactNormal} x {DualAverage, Adam} x six target families with known moments (iso, "
        "scaled with condition 1e6, correlated, AR(1), Student-t, Gumbel, correlated with unequal scales) x dims {1,2,10,50(,100)} run with default settings, several chains "
        "each. Post-warmup means, variances and 10/50/90% quantile coverage are z-tested with batch-means standard errors (|z| > 7.5 flags); a "
        "flag counts only if three fresh seeds with 4x the draws flag the same statistic with the same sign. Gaussian targets with condition "
        "<= 100 must have no post-warmup divergence (also replicated). A delegating Math wrapper records the momentum draw of every trajectory "
        "of one chain per configuration: at least one refresh per draw, N(0,1) mean / variance / kurtosis / KS, lag-1 correlation, correlation "
        "with the previous whitened position.",
        "Statistical: detects effects well above Monte-Carlo error only (a few percent bias in a variance); unconfirmed flags are inconclusive.",
        "DESIGN.md §3 C04",
    ),
})

CHECKS.update({
    "C10": (
        "exploration",
        "runtime monitor on schedules: bitwise per-chain trace hashes of the real Sampler under perturbed schedules vs a single-core reference",
        "The real parallel Sampler runs with a recording storage backend (hook re-export of the storage traits). Every base configuration "
        "(preset, num_tune, num_draws, num_chains, seed, target; model variants: Model::math consumes its RNG, all chains start from one point; one "
        "20 000-dimensional model) is run once on one core without interference and then under variants: "
        "num_cores 1/2/3/16, a different number of chains, seeded yields and sleeps at 17 schedule points placed in the chain loop and the "
        "controller loop, per-chain density delays and random pause / resume / progress / flush / inspect / wait storms. Every statistic and "
        "draw value of every record is hashed bitwise; each chain's trace must equal the reference, chains of one run must differ pairwise. "
        "Evidence counts distinct interleaving signatures (hash of the (role, schedule point) event sequence).",
        "Schedules are sampled, not enumerated. Runs execute one at a time in the process (global schedule controller). The thorough tier adds a "
        "ThreadSanitizer build and Miri seeds of the same workload.",
        "DESIGN.md §3 C10",
    ),
    "C11": (
        "exploration",
        "runtime monitor on schedules: scripted client commands with call/return log, watchdog + CPU-idle stall oracle with reproduction, prefix / completeness / progress agreement checks",
        "Random command scripts (storms, abort early / while paused / mid-run, commands after completion, repeated pause and resume) run against "
        "the real Sampler with num_chains <, =, > num_cores, per-chain delays and perturbed schedules. Every call must return; a run that is not "
        "aborted ends with exactly num_tune+num_draws records per chain, in order, identical to the uninterrupted run, and the finalized trace "
        "equals the records; an aborted run returns per-chain prefixes of the uninterrupted run; at quiescent points progress() agrees with the "
        "trace (finished draws, post-warmup divergences as recorded in the diverging statistic, step totals); runs of zero length, runs with "
        "injected density errors (divergent draws), slow record_sample and invalid first starting points are part of the cases; an aborted run "
        "returns every chain that recorded something. A call that does not return within 60 s while the process consumes no "
        "CPU time and whose chains are not all paused or finished (judged at the schedule points) is re-run in up to four fresh processes, each repeating "
        "the case 40 times; only a reproduced stall is a deadlock, any other watchdog expiry is inconclusive.",
        "Termination is bounded (watchdog), not proven. Scripts end with resume or abort.",
        "DESIGN.md §3 C11",
    ),
    "C12": (
        "exploration",
        "runtime monitor on schedules: gates hold a chain at each loop point while pause() is issued; records after pause() returned are counted on a shared logical clock",
        "Gates on the schedule points hold a chosen chain at each of seven points of its loop (chain start, before init, loop top, before / after "
        "draw, after record, before try_recv) at a random draw; pause() is issued and returns, the gate is released (systematic placement), "
        "plus random placements with several held chains and bursts of queued resume / pause commands. The recording backend and the client "
        "share one logical clock: per chain the number of records between pause-returned and resume-called is <= 1 + queued commands, nothing is "
        "recorded between two quiescent points of one pause, an unstarted chain has no records (also while it retries invalid starting points), and after resume the final trace is bit-identical "
        "to the uninterrupted run (checked with the C11 oracles).",
        "Cases whose gate is never reached are inconclusive. Evidence lists the coverage per pause point.",
        "DESIGN.md §3 C12",
    ),
    "C13": (
        "fault_enumeration",
        "fault injection into density / model / storage of the real Sampler; oracle on SamplerWaitResult and on every client call under catch_unwind + watchdog",
        "Faults: unrecoverable logp error at a chosen evaluation (initialisation, first draw, warmup, warmup/sampling boundary, last draw, inside the "
        "re-run of the step size search) in one, "
        "two or several chains; recoverable logp errors; storage record_sample / finalize / initialize_trace_for_chain errors; Model::math error in "
        "a chain or in the controller; init_position error; all 500 initial points invalid; first starting points with a non-finite log density; a "
        "density that is never finite; the real CSV backend writing to a full device - crossed with presets, chain index, num_chains vs "
        "num_cores, schedule perturbation and interleaved user commands (storm, wait, direct abort, progress polling). Oracles: wait_timeout yields Err (never a "
        "trace, never a panic in the calling thread, never a hang); recoverable errors end with a complete trace; no client call panics.",
        "abort() is only required not to panic or hang. Recoverable-error cases on NUTS presets use a fixed step size (known C05 finding in the re-run search).",
        "DESIGN.md §3 C13",
    ),
})

CHECKS.update({
    "C14": (
        "exploration",
        "runtime monitor: one recorded value stream replayed into every real storage backend through the storage traits (hook) and through Sampler, independent read-back",
        "Value streams are recorded from real chains of all six presets (warmup with transformation updates, divergences, aborted runs, "
        "num_tune / num_draws in {0,1,2,7,...}, 1-4 chains), from a model with a multi-type expanded vector (f64 scalar / vector / matrix, f32, "
        "i64, u64, bool, string scalar and vector) and with injected special values (NaN, +-inf, empty strings, huge integers). Each stream "
        "is replayed identically into HashMap, ndarray, Arrow, Zarr sync, Zarr async and CSV through StorageConfig / TraceStorage / ChainStorage, "
        "and end to end through Sampler against the recording backend. Read-back uses an independent reader per backend (result maps, arrays, "
        "RecordBatch columns with null bitmap and list offsets, Zarr arrays re-opened with a fresh zarrs reader, re-parsed CSV). Oracles: values "
        "bitwise, order, type, shape, warmup before sampling, event arrays contain exactly the events that occurred, store_warmup(false) omits "
        "exactly the warmup rows, backends agree, finalize / inspect neither fail nor panic. Zarr cases repeat to expose HashMap-order effects.",
        "HashMap's documented omission of the draw / chain statistics and CSV's documented column subset / printed precision are not judged.",
        "DESIGN.md §3 C14",
    ),
    "C15": (
        "fault_enumeration",
        "crash-point enumeration: record k draws, flush, snapshot the store, read the snapshot with a fresh reader; continue and re-check earlier regions",
        "Through the storage traits the real Zarr writers (sync, async over two adapters) record a stream; after every prefix length k the "
        "chain storages are flushed and the store is snapshotted (filesystem store: directory copy = what a process stopping here leaves behind; "
        "memory store: key copy) and every array is compared with the recorded prefix for every chain (values, order, strings, event arrays); "
        "recording continues and regions flushed earlier are re-checked after later records, flushes and finalize. Chunk sizes {1,2,3,5,7,n-1,n,"
        "n+1,100}, num_tune / num_draws around chunk multiples including the warmup -> sampling buffer reset, plus Sampler::pause / flush / resume "
        "with progress() as the lower bound of what must be readable.",
        "A crash is modelled as the store contents at the moment flush() returned (no torn writes inside zarrs are modelled).",
        "DESIGN.md §3 C15",
    ),
})

NOT_YET = {}


def main():
    props = [json.loads(l) for l in open(os.path.join(ROOT, "properties.jsonl"))]
    try:
        hook_commits = subprocess.run(
            ["git", "-C", "/repo", "log", "--format=%H", "--grep", "verification hooks", "-i"],
            stdout=subprocess.PIPE, text=True).stdout.split()
    except Exception:  # noqa: BLE001
        hook_commits = []
    checks = []
    for p in props:
        pid = p["id"]
        if pid not in CHECKS:
            continue
        cat, tech, text, note, ref = CHECKS[pid]
        passes = sanitizers.PLAN.get(pid, [])
        if passes:
            tech += "; thorough tier repeats the workload under " + " and ".join(
                {"asan": "AddressSanitizer", "tsan": "ThreadSanitizer (instrumented std)", "miri": "Miri"}[k] for k, _ in passes)
        checks.append({
            "property_id": pid,
            "quick_cmd": f"./check {pid} --tier quick",
            "thorough_cmd": f"./check {pid} --tier thorough",
            "evidence_file": f"/verif/evidence/{pid}.json",
            "replay_cmd_template": f"./check {pid} --replay {{path}}",
            "engine": "nutsverif",
            "level_claimed": {"category": cat, "text": text, "design_ref": ref},
            "level_note": note,
            "technique": tech,
        })
    na = [{"property_id": p["id"], "reason": NOT_YET.get(p["id"], "check not built yet in this round (work in progress; see DESIGN.md for the planned monitor)")}
          for p in props if p["id"] not in CHECKS]
    manifest = {
        "version": 1,
        "setup_cmd": "cd /verif/harness && CARGO_NET_OFFLINE=true cargo build --release --offline",
        "hooks": {
            "guard": "--cfg nuts_rs_verif",
            "enable": "RUSTFLAGS=\"--cfg nuts_rs_verif\" (set in /verif/harness/.cargo/config.toml; nuts-rs is a path dependency on /repo)",
            "baseline_off_cmd": "cd /repo && cargo test --workspace --no-fail-fast --offline",
            "source_commits": hook_commits,
            "add_only": True,
        },
        "engines": [{
            "name": "nutsverif",
            "path": "/verif/harness",
            "serves_properties": [c["property_id"] for c in checks],
            "kind_free_text": "Rust harness (runtime monitors, scripted RNG / Math, fault injection, schedule controller) + python driver /verif/check; thorough tier adds Miri / TSan / ASan passes",
        }],
        "checks": checks,
        "not_applicable": na,
        "notes": "Technique family: runtime monitoring and sanitizers. See DESIGN.md. Known findings: /verif/known_findings.txt.",
    }
    with open(os.path.join(ROOT, "MANIFEST.json"), "w") as f:
        json.dump(manifest, f, indent=1)
    print(f"wrote MANIFEST.json with {len(checks)} checks, {len(na)} not_applicable")


if __name__ == "__main__":
    main()
