use std::collections::HashMap;
use std::convert::Infallible;
use nuts_rs::verif::*;
use nuts_rs::*;
use nuts_storable::{HasDims, Storable, Value, ItemType};
use thiserror::Error;

#[derive(Debug, Error)]
enum E {}
impl LogpError for E { fn is_recoverable(&self) -> bool { false } }

#[derive(Clone)]
struct Gauss { prec: Vec<Vec<f64>> }
impl HasDims for Gauss {
    fn dim_sizes(&self) -> HashMap<String, u64> {
        HashMap::from([("unconstrained_parameter".into(), self.prec.len() as u64), ("dim".into(), self.prec.len() as u64)])
    }
}
impl CpuLogpFunc for Gauss {
    type LogpError = E; type FlowParameters = (); type ExpandedVector = Vec<f64>;
    fn dim(&self) -> usize { self.prec.len() }
    fn logp(&mut self, x: &[f64], g: &mut [f64]) -> Result<f64, E> {
        let n = x.len(); let mut lp = 0.0;
        for i in 0..n { let mut s = 0.0; for j in 0..n { s += self.prec[i][j] * x[j]; } g[i] = -s; lp -= 0.5 * x[i] * s; }
        Ok(lp)
    }
    fn expand_vector<R: rand::Rng + ?Sized>(&mut self, _r: &mut R, a: &[f64]) -> Result<Vec<f64>, CpuMathError> { Ok(a.to_vec()) }
}

// ---- ScriptMath: delegating Math wrapper with scripted momentum
struct ScriptMath<F: CpuLogpFunc> { inner: CpuMath<F>, momentum: Option<Vec<f64>>, turn_log: Vec<(f64, f64)> }
struct Exp<F: CpuLogpFunc>(<CpuMath<F> as Math>::ExpandedVector);
impl<F: CpuLogpFunc> Storable<ScriptMath<F>> for Exp<F> {
    fn names(p: &ScriptMath<F>) -> Vec<&str> { <<CpuMath<F> as Math>::ExpandedVector as Storable<CpuMath<F>>>::names(&p.inner) }
    fn item_type(p: &ScriptMath<F>, i: &str) -> ItemType { <<CpuMath<F> as Math>::ExpandedVector as Storable<CpuMath<F>>>::item_type(&p.inner, i) }
    fn dims<'a>(p: &'a ScriptMath<F>, i: &str) -> Vec<&'a str> { <<CpuMath<F> as Math>::ExpandedVector as Storable<CpuMath<F>>>::dims(&p.inner, i) }
    fn get_all<'a>(&'a mut self, p: &'a ScriptMath<F>) -> Vec<(&'a str, Option<Value>)> { self.0.get_all(&p.inner) }
}
impl<F: CpuLogpFunc> HasDims for ScriptMath<F> {
    fn dim_sizes(&self) -> HashMap<String, u64> { self.inner.dim_sizes() }
    fn coords(&self) -> HashMap<String, Value> { self.inner.coords() }
}
type V<F> = <CpuMath<F> as Math>::Vector;
type EV<F> = <CpuMath<F> as Math>::EigVectors;
type EL<F> = <CpuMath<F> as Math>::EigValues;
impl<F: CpuLogpFunc> Math for ScriptMath<F> where Exp<F>: Send + Sync {
    type Vector = V<F>; type EigVectors = EV<F>; type EigValues = EL<F>;
    type LogpErr = <CpuMath<F> as Math>::LogpErr; type Err = <CpuMath<F> as Math>::Err;
    type FlowParameters = <CpuMath<F> as Math>::FlowParameters; type ExpandedVector = Exp<F>;
    fn new_array(&mut self) -> V<F> { self.inner.new_array() }
    fn new_eig_vectors<'a>(&'a mut self, vals: impl ExactSizeIterator<Item = &'a [f64]>) -> EV<F> { self.inner.new_eig_vectors(vals) }
    fn new_eig_values(&mut self, vals: &[f64]) -> EL<F> { self.inner.new_eig_values(vals) }
    fn logp_array(&mut self, p: &V<F>, g: &mut V<F>) -> Result<f64, Self::LogpErr> { self.inner.logp_array(p, g) }
    fn logp(&mut self, p: &[f64], g: &mut [f64]) -> Result<f64, Self::LogpErr> { self.inner.logp(p, g) }
    fn init_position<R: rand::Rng + ?Sized>(&mut self, r: &mut R, p: &mut V<F>, g: &mut V<F>) -> Result<f64, Self::LogpErr> { self.inner.init_position(r, p, g) }
    fn expand_vector<R: rand::Rng + ?Sized>(&mut self, r: &mut R, a: &V<F>) -> Result<Exp<F>, Self::Err> { Ok(Exp(self.inner.expand_vector(r, a)?)) }
    fn dim(&self) -> usize { self.inner.dim() }
    fn vector_coord(&self) -> Option<Value> { self.inner.vector_coord() }
    fn scalar_prods3(&mut self, a: &V<F>, b: &V<F>, c: &V<F>, x: &V<F>, y: &V<F>) -> (f64, f64) { let r = self.inner.scalar_prods3(a, b, c, x, y); self.turn_log.push(r); r }
    fn scalar_prods2(&mut self, a: &V<F>, b: &V<F>, x: &V<F>, y: &V<F>) -> (f64, f64) { self.inner.scalar_prods2(a, b, x, y) }
    fn sq_norm_sum(&mut self, x: &V<F>, y: &V<F>) -> f64 { self.inner.sq_norm_sum(x, y) }
    fn read_from_slice(&mut self, d: &mut V<F>, s: &[f64]) { self.inner.read_from_slice(d, s) }
    fn write_to_slice(&mut self, s: &V<F>, d: &mut [f64]) { self.inner.write_to_slice(s, d) }
    fn eigs_as_array(&mut self, s: &EL<F>) -> Box<[f64]> { self.inner.eigs_as_array(s) }
    fn copy_into(&mut self, a: &V<F>, d: &mut V<F>) { self.inner.copy_into(a, d) }
    fn axpy_out(&mut self, x: &V<F>, y: &V<F>, a: f64, o: &mut V<F>) { self.inner.axpy_out(x, y, a, o) }
    fn axpy(&mut self, x: &V<F>, y: &mut V<F>, a: f64) { self.inner.axpy(x, y, a) }
    fn fill_array(&mut self, a: &mut V<F>, v: f64) { self.inner.fill_array(a, v) }
    fn array_all_finite(&mut self, a: &V<F>) -> bool { self.inner.array_all_finite(a) }
    fn array_all_finite_and_nonzero(&mut self, a: &V<F>) -> bool { self.inner.array_all_finite_and_nonzero(a) }
    fn array_mult(&mut self, a: &V<F>, b: &V<F>, d: &mut V<F>) { self.inner.array_mult(a, b, d) }
    fn array_mult_inplace(&mut self, a: &mut V<F>, b: &V<F>) { self.inner.array_mult_inplace(a, b) }
    fn array_recip(&mut self, a: &V<F>, d: &mut V<F>) { self.inner.array_recip(a, d) }
    fn apply_lowrank_transform(&mut self, v: &EV<F>, l: &EL<F>, r: &V<F>, d: &mut V<F>) { self.inner.apply_lowrank_transform(v, l, r, d) }
    fn apply_lowrank_transform_inplace(&mut self, v: &EV<F>, l: &EL<F>, r: &mut V<F>) { self.inner.apply_lowrank_transform_inplace(v, l, r) }
    fn array_mult_eigs(&mut self, s: &V<F>, r: &V<F>, d: &mut V<F>, v: &EV<F>, l: &EL<F>) { self.inner.array_mult_eigs(s, r, d, v, l) }
    fn std_norm_flow(&mut self, p: &V<F>, po: &mut V<F>, v: &mut V<F>, e: f64) { self.inner.std_norm_flow(p, po, v, e) }
    fn std_norm_grad_flow(&mut self, p: &V<F>, g: &V<F>, v: &V<F>, vo: &mut V<F>, e: f64) { self.inner.std_norm_grad_flow(p, g, v, vo, e) }
    fn std_norm_grad_flow_inplace(&mut self, p: &V<F>, g: &V<F>, v: &mut V<F>, e: f64) { self.inner.std_norm_grad_flow_inplace(p, g, v, e) }
    fn array_normalize(&mut self, v: &mut V<F>) { self.inner.array_normalize(v) }
    fn esh_momentum_update(&mut self, g: &V<F>, m: &mut V<F>, s: f64) -> f64 { self.inner.esh_momentum_update(g, m, s) }
    fn array_vector_dot(&mut self, a: &V<F>, b: &V<F>) -> f64 { self.inner.array_vector_dot(a, b) }
    fn array_gaussian<R: rand::Rng + ?Sized>(&mut self, r: &mut R, d: &mut V<F>, s: &V<F>) {
        if let Some(m) = &self.momentum { let m = m.clone(); self.inner.read_from_slice(d, &m); } else { self.inner.array_gaussian(r, d, s) }
    }
    fn array_gaussian_eigs<R: rand::Rng + ?Sized>(&mut self, r: &mut R, d: &mut V<F>, s: &V<F>, l: &EL<F>, v: &EV<F>) { self.inner.array_gaussian_eigs(r, d, s, l, v) }
    fn array_update_variance(&mut self, m: &mut V<F>, v: &mut V<F>, x: &V<F>, s: f64) { self.inner.array_update_variance(m, v, x, s) }
    fn array_update_var_inv_std_draw(&mut self, i: &mut V<F>, s: &mut V<F>, d: &V<F>, sc: f64, f: Option<f64>, c: (f64, f64)) { self.inner.array_update_var_inv_std_draw(i, s, d, sc, f, c) }
    fn array_update_var_inv_std_draw_grad(&mut self, i: &mut V<F>, s: &mut V<F>, d: &V<F>, g: &V<F>, f: Option<f64>, c: (f64, f64)) { self.inner.array_update_var_inv_std_draw_grad(i, s, d, g, f, c) }
    fn array_update_var_inv_std_grad(&mut self, i: &mut V<F>, s: &mut V<F>, g: &V<F>, f: f64, c: (f64, f64)) { self.inner.array_update_var_inv_std_grad(i, s, g, f, c) }
    fn inv_transform_normalize(&mut self, p: &Self::FlowParameters, a: &V<F>, b: &V<F>, c: &mut V<F>, d: &mut V<F>) -> Result<f64, Self::LogpErr> { self.inner.inv_transform_normalize(p, a, b, c, d) }
    fn init_from_untransformed_position(&mut self, p: &Self::FlowParameters, a: &V<F>, b: &mut V<F>, c: &mut V<F>, d: &mut V<F>) -> Result<(f64, f64), Self::LogpErr> { self.inner.init_from_untransformed_position(p, a, b, c, d) }
    fn init_from_transformed_position(&mut self, p: &Self::FlowParameters, a: &mut V<F>, b: &mut V<F>, c: &V<F>, d: &mut V<F>) -> Result<(f64, f64), Self::LogpErr> { self.inner.init_from_transformed_position(p, a, b, c, d) }
    fn update_transformation<'a, R: rand::Rng + ?Sized>(&'a mut self, r: &mut R, a: impl ExactSizeIterator<Item = &'a V<F>>, b: impl ExactSizeIterator<Item = &'a V<F>>, c: impl ExactSizeIterator<Item = &'a f64>, p: &'a mut Self::FlowParameters) -> Result<(), Self::LogpErr> { self.inner.update_transformation(r, a, b, c, p) }
    fn new_transformation<R: rand::Rng + ?Sized>(&mut self, r: &mut R, d: usize, c: u64) -> Result<Self::FlowParameters, Self::LogpErr> { self.inner.new_transformation(r, d, c) }
    fn init_transformation<R: rand::Rng + ?Sized>(&mut self, r: &mut R, a: &V<F>, b: &V<F>, c: u64) -> Result<Self::FlowParameters, Self::LogpErr> { self.inner.init_transformation(r, a, b, c) }
    fn transformation_id(&self, p: &Self::FlowParameters) -> Result<i64, Self::LogpErr> { self.inner.transformation_id(p) }
}

// ---- ScriptRng
#[derive(Default)]
struct ScriptRng { script: Vec<u64>, pos: usize, log: Vec<(u8, u64)> }
impl rand::TryRng for ScriptRng {
    type Error = Infallible;
    fn try_next_u32(&mut self) -> Result<u32, Infallible> { let v = self.script.get(self.pos).copied().unwrap_or(0); self.pos += 1; self.log.push((32, v)); Ok((v >> 32) as u32) }
    fn try_next_u64(&mut self) -> Result<u64, Infallible> { let v = self.script.get(self.pos).copied().unwrap_or(u64::MAX); self.pos += 1; self.log.push((64, v)); Ok(v) }
    fn try_fill_bytes(&mut self, d: &mut [u8]) -> Result<(), Infallible> { for b in d.iter_mut() { *b = 0 } self.log.push((8, 0)); Ok(()) }
}

struct Rec { states: Vec<(i64, f64, bool)>, init_energy: f64 }
impl<M: Math> Collector<M, TransformedPoint<M>> for Rec {
    fn register_leapfrog(&mut self, math: &mut M, _s: &State<M, TransformedPoint<M>>, e: &State<M, TransformedPoint<M>>, d: Option<&DivergenceInfo>) {
        let p = point_parts(math, e.point());
        self.states.push((p.index, p.energy, d.is_some()));
    }
    fn register_init(&mut self, math: &mut M, s: &State<M, TransformedPoint<M>>, _o: &NutsOptions) { self.init_energy = point_parts(math, s.point()).energy; }
}

fn run(script: Vec<u64>, maxdepth: u64) -> (i64, u64, Vec<(u8, u64)>, Vec<(i64, f64, bool)>, f64) {
    let g = Gauss { prec: vec![vec![1.0, 0.3], vec![0.3, 2.0]] };
    let mut math = ScriptMath { inner: CpuMath::new(g), momentum: Some(vec![0.7, -0.4]), turn_log: vec![] };
    let t = diag_transform(&mut math, &[1.0, 0.8], &[0.1, -0.2]);
    let mut h = TransformedHamiltonian::new(&mut math, t, KineticEnergyKind::Euclidean);
    *h.step_size_mut() = 0.45;
    let mut st = h.init_state(&mut math, &[0.3, 0.5]).unwrap();
    let mut rng = ScriptRng { script, ..Default::default() };
    let opts = NutsOptions { maxdepth, ..Default::default() };
    let mut rec = Rec { states: vec![], init_energy: 0.0 };
    let (out, info) = nuts_draw(&mut math, &mut st, &mut rng, &mut h, &opts, &mut rec).unwrap();
    (out.index_in_trajectory(), info.depth, rng.log, rec.states, rec.init_energy)
}

fn main() {
    let f = 1u64 << 63;
    let t0 = std::time::Instant::now();
    let mut nruns = 0u64;
    let mut total_p = 0.0;
    let mut table: std::collections::BTreeMap<i64, f64> = Default::default();
    // enumerate direction sequences (3 doublings), discover requests per sequence
    for dmask in 0..8u64 {
        // discovery run: directions from dmask, bernoulli = MAX (reject)
        let mk = |b: &Vec<u64>, dmask: u64| -> Vec<u64> {
            // we don't know positions a priori: build script adaptively using the log of a discovery run
            b.clone()
        };
        let _ = mk;
        // adaptive: run, look at log kinds, fill script
        let mut script: Vec<u64> = vec![];
        let mut kinds: Vec<u8> = vec![];
        loop {
            let r = run(script.clone(), 3); nruns += 1;
            let log = r.2;
            if log.len() <= script.len() { kinds = log.iter().map(|x| x.0).collect(); break; }
            // extend the script by one entry according to kind
            let k = log[script.len()].0;
            let ndir = kinds.iter().filter(|&&x| x == 32).count();
            let v = if k == 32 { if (dmask >> ndir) & 1 == 1 { f } else { 0 } } else { u64::MAX };
            kinds.push(k); script.push(v);
        }
        let ndirs = kinds.iter().filter(|&&x| x == 32).count();
        if ndirs < 3 && (dmask >> ndirs) != 0 { continue; } // duplicate prefix
        let bern: Vec<usize> = kinds.iter().enumerate().filter(|x| *x.1 == 64).map(|x| x.0).collect();
        let m = bern.len();
        // outcome map over {0,MAX}^m
        let mut outcome = vec![0i64; 1 << m];
        for b in 0..(1usize << m) {
            let mut s = script.clone();
            for (j, &pos) in bern.iter().enumerate() { s[pos] = if (b >> j) & 1 == 1 { 0 } else { u64::MAX }; }
            outcome[b] = run(s, 3).0; nruns += 1;
        }
        // thresholds
        let mut p = vec![f64::NAN; m];
        for j in 0..m {
            let ctx = (0..(1usize << m)).find(|b| (b >> j) & 1 == 0 && outcome[*b] != outcome[b | (1 << j)]);
            let Some(ctx) = ctx else { continue };
            let eval = |v: u64, nruns: &mut u64| { let mut s = script.clone(); for (jj, &pos) in bern.iter().enumerate() { s[pos] = if (ctx >> jj) & 1 == 1 { 0 } else { u64::MAX }; } s[bern[j]] = v; *nruns += 1; run(s, 3).0 };
            let a = outcome[ctx | (1 << j)];
            let (mut lo, mut hi) = (0u64, u64::MAX);
            while hi - lo > 1 { let mid = lo + (hi - lo) / 2; if eval(mid, &mut nruns) == a { lo = mid } else { hi = mid } }
            p[j] = hi as f64 / 2f64.powi(64);
        }
        let wdir = 0.5f64.powi(ndirs as i32);
        for b in 0..(1usize << m) {
            let mut pr = wdir; let mut ok = true;
            for j in 0..m { if p[j].is_nan() { if (b >> j) & 1 == 1 { ok = false } continue } pr *= if (b >> j) & 1 == 1 { p[j] } else { 1.0 - p[j] }; }
            if !ok { continue }
            *table.entry(outcome[b]).or_default() += pr; total_p += pr;
        }
        println!("dmask={dmask:03b} ndirs={ndirs} m={m} p={p:?}");
    }
    println!("P(z0->k) = {table:?}\nsum={total_p} runs={nruns} time={:?}", t0.elapsed());
}
