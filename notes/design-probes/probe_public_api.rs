use std::collections::HashMap;
use std::sync::Arc;
use std::sync::atomic::{AtomicUsize, Ordering};
use std::time::Duration;
use nuts_rs::*;
use nuts_rs::rand::{Rng, SeedableRng};
use nuts_storable::HasDims;
use thiserror::Error;

#[derive(Debug, Error)]
enum E { #[error("recoverable")] Rec, #[error("fatal")] Fatal }
impl LogpError for E { fn is_recoverable(&self) -> bool { matches!(self, E::Rec) } }

#[derive(Clone)]
struct F { dim: usize, count: Arc<AtomicUsize>, fault_at: Option<usize>, kind: u8 }
impl HasDims for F {
    fn dim_sizes(&self) -> HashMap<String, u64> {
        HashMap::from([("unconstrained_parameter".into(), self.dim as u64), ("dim".into(), self.dim as u64)])
    }
}
impl CpuLogpFunc for F {
    type LogpError = E; type FlowParameters = (); type ExpandedVector = Vec<f64>;
    fn dim(&self) -> usize { self.dim }
    fn logp(&mut self, x: &[f64], g: &mut [f64]) -> Result<f64, E> {
        let k = self.count.fetch_add(1, Ordering::SeqCst);
        let mut lp = 0.0;
        for (x, g) in x.iter().zip(g.iter_mut()) { lp -= 0.5 * x * x; *g = -x; }
        if Some(k) == self.fault_at {
            match self.kind { 0 => return Err(E::Rec), 1 => return Err(E::Fatal), 2 => return Ok(f64::NAN), _ => {} }
        }
        Ok(lp)
    }
    fn expand_vector<R: Rng + ?Sized>(&mut self, _r: &mut R, a: &[f64]) -> Result<Vec<f64>, CpuMathError> { Ok(a.to_vec()) }
}
struct Mdl(F);
impl Model for Mdl {
    type Math<'m> = CpuMath<F>;
    fn math<R: Rng + ?Sized>(&self, _r: &mut R) -> anyhow::Result<CpuMath<F>> { Ok(CpuMath::new(self.0.clone())) }
    fn init_position<R: Rng + ?Sized>(&self, _r: &mut R, p: &mut [f64]) -> anyhow::Result<()> { p.iter_mut().for_each(|x| *x = 0.3); Ok(()) }
}
fn f(dim: usize, fault_at: Option<usize>, kind: u8) -> F { F { dim, count: Arc::new(AtomicUsize::new(0)), fault_at, kind } }

fn main() {
    let which = std::env::args().nth(1).unwrap();
    let mut rng = nuts_rs::rand::rngs::ChaCha8Rng::seed_from_u64(1);
    match which.as_str() {
        "p1" => {
            let s = DiagNutsSettings { num_tune: 0, num_draws: 5, ..Default::default() };
            let mut c = s.new_chain(0, CpuMath::new(f(3, None, 0)), &mut rng);
            c.set_position(&[0.1, 0.2, 0.3]).unwrap();
            for _ in 0..5 { let (_, p) = c.draw().unwrap(); println!("tuning={} step={}", p.tuning, p.step_size); }
        }
        "p2" => {
            let s = DiagMclmcSettings { num_tune: 5, num_draws: 5, ..Default::default() };
            let mut c = s.new_chain(0, CpuMath::new(f(3, None, 0)), &mut rng);
            c.set_position(&[0.1, 0.2, 0.3]).unwrap();
            for i in 0..10 { let (_, p) = c.draw().unwrap(); println!("draw {i} tuning={} step={} nsteps={}", p.tuning, p.step_size, p.num_steps); }
            let s = DiagNutsSettings { num_tune: 5, num_draws: 5, ..Default::default() };
            let mut c = s.new_chain(0, CpuMath::new(f(3, None, 0)), &mut rng);
            c.set_position(&[0.1, 0.2, 0.3]).unwrap();
            for i in 0..10 { let (_, p) = c.draw().unwrap(); println!("nuts draw {i} tuning={} step={} nsteps={}", p.tuning, p.step_size, p.num_steps); }
        }
        "p3" => {
            let s = DiagNutsSettings { num_tune: 5, num_draws: 5, num_chains: 2, ..Default::default() };
            let smp = Sampler::new(Mdl(f(3, None, 0)), s, HashMapConfig::new(), 2, None).unwrap();
            match smp.wait_timeout(Duration::from_secs(20)) {
                SamplerWaitResult::Trace(t) => println!("trace ok chains={}", t.len()),
                SamplerWaitResult::Timeout(_) => println!("timeout"),
                SamplerWaitResult::Err(e, _) => println!("err {e:?}"),
            }
        }
        "p4" => {
            let s = DiagNutsSettings { num_tune: 5, num_draws: 5, num_chains: 2, ..Default::default() };
            let smp = Sampler::new(Mdl(f(3, None, 0)), s, NdarrayConfig::new(), 2, None).unwrap();
            match smp.wait_timeout(Duration::from_secs(20)) {
                SamplerWaitResult::Trace(t) => println!("trace ok stats={} draws={:?}", t.stats.len(), t.draws.keys().collect::<Vec<_>>()),
                SamplerWaitResult::Timeout(_) => println!("timeout"),
                SamplerWaitResult::Err(e, _) => println!("err {e:?}"),
            }
        }
        "p5" => {
            let s = DiagNutsSettings { num_tune: 20, num_draws: 20, num_chains: 2, ..Default::default() };
            let smp = Sampler::new(Mdl(f(3, Some(60), 1)), s, ArrowConfig::default(), 2, None).unwrap();
            match smp.wait_timeout(Duration::from_secs(20)) {
                SamplerWaitResult::Trace(t) => println!("trace ok chains={}", t.len()),
                SamplerWaitResult::Timeout(_) => println!("timeout"),
                SamplerWaitResult::Err(e, _) => println!("err {e:?}"),
            }
        }
        "p6" => {
            // find number of evals in set_position
            let ff = f(3, None, 0);
            let s = DiagNutsSettings { num_tune: 20, num_draws: 20, ..Default::default() };
            let mut c = s.new_chain(0, CpuMath::new(ff.clone()), &mut rng);
            c.set_position(&[0.1, 0.2, 0.3]).unwrap();
            let n = ff.count.load(Ordering::SeqCst);
            println!("evals in set_position: {n}");
            for k in 0..n {
                let mut rng = nuts_rs::rand::rngs::ChaCha8Rng::seed_from_u64(1);
                let ff = f(3, Some(k), 2);
                let mut c = s.new_chain(0, CpuMath::new(ff.clone()), &mut rng);
                let r = c.set_position(&[0.1, 0.2, 0.3]);
                print!("k={k} set_position={:?}", r.as_ref().map_err(|e| e.to_string()));
                if r.is_ok() {
                    let mut div = 0; let mut moved = 0;
                    for _ in 0..10 { let (p, pr) = c.draw().unwrap(); if pr.diverging { div += 1 }; if p[0] != 0.1 { moved += 1 } }
                    print!(" div={div}/10 moved={moved}");
                }
                println!();
            }
        }
        "p7" => {
            use zarrs::storage::store::MemoryStore;
            let store = Arc::new(MemoryStore::new());
            let s = DiagNutsSettings { num_tune: 7, num_draws: 5, num_chains: 1, ..Default::default() };
            let smp = Sampler::new(Mdl(f(3, None, 0)), s, ZarrConfig::new(store.clone()).store_warmup(false).with_chunk_size(3), 1, None).unwrap();
            match smp.wait_timeout(Duration::from_secs(20)) {
                SamplerWaitResult::Trace(_) => println!("trace ok"),
                SamplerWaitResult::Timeout(_) => println!("timeout"),
                SamplerWaitResult::Err(e, _) => println!("err {e:?}"),
            }
            let a = zarrs::array::Array::open(store.clone(), "/warmup_posterior/value").unwrap();
            let v: Vec<f64> = a.retrieve_array_subset(&a.subset_all()).unwrap();
            println!("warmup_posterior/value shape={:?} vals={:?}", a.shape(), v);
        }
        "p8" => {
            let s = DiagNutsSettings { num_tune: 50, num_draws: 50, num_chains: 4, ..Default::default() };
            let mut smp = Sampler::new(Mdl(f(5, None, 0)), s, ArrowConfig::default(), 3, None).unwrap();
            smp.pause().unwrap();
            let p = smp.progress().unwrap();
            println!("paused at {:?}", p.iter().map(|c| c.finished_draws).collect::<Vec<_>>());
            let _ = smp.inspect().unwrap();
            smp.flush().unwrap();
            smp.resume().unwrap();
            match smp.wait_timeout(Duration::from_secs(120)) {
                SamplerWaitResult::Trace(t) => println!("trace ok chains={} rows={}", t.len(), t[0].posterior.num_rows()),
                SamplerWaitResult::Timeout(_) => println!("timeout"),
                SamplerWaitResult::Err(e, _) => println!("err {e:?}"),
            }
        }
        "p9" => {
            use nuts_rs::rand::RngExt;
            let mut bad = 0u64; let mut first = None;
            for i in 0..2_000_000u64 {
                let bits: u64 = rng.random();
                let x = f64::from_bits(bits);
                if !x.is_finite() { continue; }
                let s = serde_json::to_string(&x).unwrap();
                let y: f64 = serde_json::from_str(&s).unwrap();
                if y.to_bits() != x.to_bits() { bad += 1; if first.is_none() { first = Some((x, y, s.clone(), i)); } }
            }
            println!("bad={bad} first={first:?}");
            let mut s = DiagNutsSettings::default();
            s.adapt_options.step_size_settings.jitter = None;
            let txt = serde_json::to_string(&s).unwrap();
            println!("{txt}");
            let back: DiagNutsSettings = serde_json::from_str(&txt).unwrap();
            println!("{}", serde_json::to_string(&back).unwrap() == txt);
        }
        "p10" => {
            let s = DiagNutsSettings { num_tune: 3, num_draws: 3, num_chains: 2, maxdepth: 3, ..Default::default() };
            let mut smp = Sampler::new(Mdl(f(2, None, 0)), s, ArrowConfig::default(), 2, None).unwrap();
            smp.pause().unwrap();
            let p = smp.progress().unwrap();
            println!("paused at {:?}", p.iter().map(|c| c.finished_draws).collect::<Vec<_>>());
            smp.resume().unwrap();
            let mut smp = smp;
            loop {
                match smp.wait_timeout(Duration::from_millis(50)) {
                    SamplerWaitResult::Trace(t) => { println!("trace ok chains={} rows={}", t.len(), t[0].posterior.num_rows()); break }
                    SamplerWaitResult::Timeout(s2) => { smp = s2; }
                    SamplerWaitResult::Err(e, _) => { println!("err {e:?}"); break }
                }
            }
        }
        _ => {}
    }
}
