//! Small deterministic helpers: harness RNG, hashing, statistics.

/// SplitMix64 / xoshiro256** based harness RNG (independent of the `rand` crate so that the
/// workload generation never shares code with the system under test).
#[derive(Clone, Debug)]
pub struct HRng {
    s: [u64; 4],
}

fn splitmix(x: &mut u64) -> u64 {
    *x = x.wrapping_add(0x9E3779B97F4A7C15);
    let mut z = *x;
    z = (z ^ (z >> 30)).wrapping_mul(0xBF58476D1CE4E5B9);
    z = (z ^ (z >> 27)).wrapping_mul(0x94D049BB133111EB);
    z ^ (z >> 31)
}

impl HRng {
    pub fn new(seed: u64) -> Self {
        let mut x = seed ^ 0xD1B54A32D192ED03;
        let s = [
            splitmix(&mut x),
            splitmix(&mut x),
            splitmix(&mut x),
            splitmix(&mut x),
        ];
        HRng { s }
    }
    /// Derive an independent stream.
    pub fn fork(&self, tag: u64) -> Self {
        let mut x = self.s[0] ^ tag.wrapping_mul(0x9E3779B97F4A7C15) ^ self.s[3].rotate_left(17);
        HRng::new(splitmix(&mut x))
    }
    pub fn next_u64(&mut self) -> u64 {
        let result = self.s[1].wrapping_mul(5).rotate_left(7).wrapping_mul(9);
        let t = self.s[1] << 17;
        self.s[2] ^= self.s[0];
        self.s[3] ^= self.s[1];
        self.s[1] ^= self.s[2];
        self.s[0] ^= self.s[3];
        self.s[2] ^= t;
        self.s[3] = self.s[3].rotate_left(45);
        result
    }
    /// Uniform in [0,1)
    pub fn unif(&mut self) -> f64 {
        (self.next_u64() >> 11) as f64 / (1u64 << 53) as f64
    }
    pub fn range(&mut self, lo: f64, hi: f64) -> f64 {
        lo + (hi - lo) * self.unif()
    }
    pub fn log_range(&mut self, lo: f64, hi: f64) -> f64 {
        (lo.ln() + (hi.ln() - lo.ln()) * self.unif()).exp()
    }
    /// Uniform integer in [0, n)
    pub fn below(&mut self, n: u64) -> u64 {
        if n == 0 {
            return 0;
        }
        self.next_u64() % n
    }
    pub fn int_range(&mut self, lo: i64, hi_incl: i64) -> i64 {
        lo + self.below((hi_incl - lo + 1) as u64) as i64
    }
    pub fn bool(&mut self, p: f64) -> bool {
        self.unif() < p
    }
    pub fn normal(&mut self) -> f64 {
        // Box-Muller
        let u1 = 1.0 - self.unif();
        let u2 = self.unif();
        (-2.0 * u1.ln()).sqrt() * (2.0 * std::f64::consts::PI * u2).cos()
    }
    pub fn normal_vec(&mut self, n: usize) -> Vec<f64> {
        (0..n).map(|_| self.normal()).collect()
    }
    pub fn choose<'a, T>(&mut self, items: &'a [T]) -> &'a T {
        &items[self.below(items.len() as u64) as usize]
    }
    pub fn shuffle<T>(&mut self, items: &mut [T]) {
        for i in (1..items.len()).rev() {
            let j = self.below(i as u64 + 1) as usize;
            items.swap(i, j);
        }
    }
}

/// FNV-1a style 64 bit hasher over u64 words (stable across runs and platforms).
#[derive(Clone, Copy, Debug)]
pub struct Fnv(pub u64);

impl Default for Fnv {
    fn default() -> Self {
        Fnv(0xcbf29ce484222325)
    }
}

impl Fnv {
    pub fn new() -> Self {
        Self::default()
    }
    pub fn u64(&mut self, x: u64) -> &mut Self {
        for b in x.to_le_bytes() {
            self.0 ^= b as u64;
            self.0 = self.0.wrapping_mul(0x100000001b3);
        }
        self
    }
    pub fn f64(&mut self, x: f64) -> &mut Self {
        self.u64(x.to_bits())
    }
    pub fn f64s(&mut self, xs: &[f64]) -> &mut Self {
        self.u64(xs.len() as u64);
        for &x in xs {
            self.f64(x);
        }
        self
    }
    pub fn bytes(&mut self, xs: &[u8]) -> &mut Self {
        self.u64(xs.len() as u64);
        for &b in xs {
            self.0 ^= b as u64;
            self.0 = self.0.wrapping_mul(0x100000001b3);
        }
        self
    }
    pub fn str(&mut self, s: &str) -> &mut Self {
        self.bytes(s.as_bytes())
    }
    pub fn finish(&self) -> u64 {
        self.0
    }
}

pub fn hash_f64s(xs: &[f64]) -> u64 {
    let mut h = Fnv::new();
    h.f64s(xs);
    h.finish()
}

// ── dense linear algebra (naive, for reference models only) ─────────────────

pub type Mat = Vec<Vec<f64>>;

pub fn mat_zeros(n: usize, m: usize) -> Mat {
    vec![vec![0.0; m]; n]
}
pub fn mat_eye(n: usize) -> Mat {
    let mut a = mat_zeros(n, n);
    for i in 0..n {
        a[i][i] = 1.0;
    }
    a
}
pub fn mat_mul(a: &Mat, b: &Mat) -> Mat {
    let n = a.len();
    let k = b.len();
    let m = if k > 0 { b[0].len() } else { 0 };
    let mut c = mat_zeros(n, m);
    for i in 0..n {
        for l in 0..k {
            let ail = a[i][l];
            if ail == 0.0 {
                continue;
            }
            for j in 0..m {
                c[i][j] += ail * b[l][j];
            }
        }
    }
    c
}
pub fn mat_t(a: &Mat) -> Mat {
    let n = a.len();
    let m = if n > 0 { a[0].len() } else { 0 };
    let mut t = mat_zeros(m, n);
    for i in 0..n {
        for j in 0..m {
            t[j][i] = a[i][j];
        }
    }
    t
}
pub fn mat_vec(a: &Mat, x: &[f64]) -> Vec<f64> {
    a.iter()
        .map(|row| row.iter().zip(x).map(|(a, b)| a * b).sum())
        .collect()
}
pub fn mat_t_vec(a: &Mat, x: &[f64]) -> Vec<f64> {
    let n = a.len();
    let m = if n > 0 { a[0].len() } else { 0 };
    let mut out = vec![0.0; m];
    for i in 0..n {
        for j in 0..m {
            out[j] += a[i][j] * x[i];
        }
    }
    out
}
pub fn dot(a: &[f64], b: &[f64]) -> f64 {
    a.iter().zip(b).map(|(x, y)| x * y).sum()
}
pub fn norm(a: &[f64]) -> f64 {
    dot(a, a).sqrt()
}

/// LU decomposition with partial pivoting; returns (log|det|, sign, inverse) or None if singular.
pub fn lu_inverse(a: &Mat) -> Option<(f64, f64, Mat)> {
    let n = a.len();
    let mut lu = a.clone();
    let mut inv = mat_eye(n);
    let mut logdet = 0.0;
    let mut sign = 1.0;
    for c in 0..n {
        let mut p = c;
        for r in c + 1..n {
            if lu[r][c].abs() > lu[p][c].abs() {
                p = r;
            }
        }
        if lu[p][c] == 0.0 || !lu[p][c].is_finite() {
            return None;
        }
        if p != c {
            lu.swap(p, c);
            inv.swap(p, c);
            sign = -sign;
        }
        let piv = lu[c][c];
        logdet += piv.abs().ln();
        if piv < 0.0 {
            sign = -sign;
        }
        for j in 0..n {
            lu[c][j] /= piv;
            inv[c][j] /= piv;
        }
        for r in 0..n {
            if r != c {
                let f = lu[r][c];
                if f != 0.0 {
                    for j in 0..n {
                        lu[r][j] -= f * lu[c][j];
                        inv[r][j] -= f * inv[c][j];
                    }
                }
            }
        }
    }
    Some((logdet, sign, inv))
}

/// Determinant via LU (sign * exp(logdet)); 0 if singular.
pub fn det(a: &Mat) -> f64 {
    match lu_inverse(a) {
        Some((ld, s, _)) => s * ld.exp(),
        None => 0.0,
    }
}

/// Gram-Schmidt orthonormalisation of `k` random columns in dimension `d`; returns columns.
pub fn random_orthonormal(rng: &mut HRng, d: usize, k: usize) -> Vec<Vec<f64>> {
    let mut cols: Vec<Vec<f64>> = Vec::new();
    while cols.len() < k {
        let mut v = rng.normal_vec(d);
        for _ in 0..2 {
            for c in &cols {
                let p = dot(&v, c);
                for i in 0..d {
                    v[i] -= p * c[i];
                }
            }
        }
        let nv = norm(&v);
        if nv > 1e-8 {
            for x in v.iter_mut() {
                *x /= nv;
            }
            cols.push(v);
        }
    }
    cols
}

// ── statistics ─────────────────────────────────────────────────────────────

pub fn mean(xs: &[f64]) -> f64 {
    xs.iter().sum::<f64>() / xs.len() as f64
}
pub fn variance(xs: &[f64]) -> f64 {
    let m = mean(xs);
    xs.iter().map(|x| (x - m) * (x - m)).sum::<f64>() / (xs.len() as f64 - 1.0)
}

/// Standard error of the mean of a (possibly autocorrelated) series by batch means.
pub fn batch_means_se(xs: &[f64]) -> f64 {
    let n = xs.len();
    let nb = ((n as f64).sqrt() as usize).clamp(8, 40);
    let bs = n / nb;
    if bs < 2 {
        return (variance(xs) / n as f64).sqrt();
    }
    let bm: Vec<f64> = (0..nb).map(|b| mean(&xs[b * bs..(b + 1) * bs])).collect();
    (variance(&bm) / nb as f64).sqrt()
}

/// Standard normal CDF.
pub fn phi(x: f64) -> f64 {
    0.5 * erfc(-x / std::f64::consts::SQRT_2)
}

/// Complementary error function (W. J. Cody style rational approximation, |rel err| < 1e-13
/// via continued use of erfc expansion from Numerical Recipes `erfccheb`).
pub fn erfc(x: f64) -> f64 {
    // Numerical Recipes 3rd ed., erfccheb
    const COF: [f64; 28] = [
        -1.3026537197817094,
        6.4196979235649026e-1,
        1.9476473204185836e-2,
        -9.561514786808631e-3,
        -9.46595344482036e-4,
        3.66839497852761e-4,
        4.2523324806907e-5,
        -2.0278578112534e-5,
        -1.624290004647e-6,
        1.303655835580e-6,
        1.5626441722e-8,
        -8.5238095915e-8,
        6.529054439e-9,
        5.059343495e-9,
        -9.91364156e-10,
        -2.27365122e-10,
        9.6467911e-11,
        2.394038e-12,
        -6.886027e-12,
        8.94487e-13,
        3.13092e-13,
        -1.12708e-13,
        3.81e-16,
        7.106e-15,
        -1.523e-15,
        -9.4e-17,
        1.21e-16,
        -2.8e-17,
    ];
    let z = x.abs();
    let t = 2.0 / (2.0 + z);
    let ty = 4.0 * t - 2.0;
    let mut d = 0.0;
    let mut dd = 0.0;
    for j in (1..COF.len()).rev() {
        let tmp = d;
        d = ty * d - dd + COF[j];
        dd = tmp;
    }
    let r = t * (-z * z + 0.5 * (COF[0] + ty * d) - dd).exp();
    if x >= 0.0 { r } else { 2.0 - r }
}

/// Two-sided p-value of a z score.
pub fn z_pvalue(z: f64) -> f64 {
    erfc(z.abs() / std::f64::consts::SQRT_2)
}

/// |z| threshold for a two sided test at level alpha.
pub fn z_threshold(alpha: f64) -> f64 {
    // bisection on z_pvalue
    let (mut lo, mut hi) = (0.0, 40.0);
    for _ in 0..200 {
        let mid = 0.5 * (lo + hi);
        if z_pvalue(mid) > alpha {
            lo = mid
        } else {
            hi = mid
        }
    }
    hi
}

/// Units in the last place distance between two finite doubles (saturating).
pub fn ulp_diff(a: f64, b: f64) -> u64 {
    if a == b {
        return 0;
    }
    if a.is_nan() || b.is_nan() {
        return u64::MAX;
    }
    let to_ord = |x: f64| -> i64 {
        let b = x.to_bits() as i64;
        if b < 0 { i64::MIN.wrapping_sub(b) } else { b }
    };
    let (x, y) = (to_ord(a), to_ord(b));
    (x as i128 - y as i128).unsigned_abs().min(u64::MAX as u128) as u64
}

pub fn fmt_f64s(xs: &[f64]) -> serde_json::Value {
    serde_json::Value::Array(
        xs.iter()
            .map(|&x| {
                if x.is_finite() {
                    serde_json::json!(x)
                } else {
                    serde_json::json!(format!("{x}"))
                }
            })
            .collect(),
    )
}

// ── panic capture ──────────────────────────────────────────────────────────

thread_local! {
    static LAST_PANIC: std::cell::RefCell<Option<String>> = const { std::cell::RefCell::new(None) };
}

/// Install a panic hook that records "<message> at <file>:<line>" per thread instead of printing.
pub fn install_quiet_panic_hook() {
    std::panic::set_hook(Box::new(|info| {
        let loc = info.location().map(|l| format!("{}:{}", l.file(), l.line())).unwrap_or_default();
        let msg = if let Some(s) = info.payload().downcast_ref::<&str>() {
            s.to_string()
        } else if let Some(s) = info.payload().downcast_ref::<String>() {
            s.clone()
        } else {
            "<non-string panic payload>".to_string()
        };
        if std::env::var("VERIF_SHOW_PANICS").is_ok() {
            eprintln!("panic: {msg} at {loc}");
        }
        LAST_PANIC.with(|p| *p.borrow_mut() = Some(format!("{msg} at {loc}")));
    }));
}

/// Run `f`, turning a panic into Err("<message> at <file>:<line>").
pub fn guard<T>(f: impl FnOnce() -> T) -> Result<T, String> {
    match std::panic::catch_unwind(std::panic::AssertUnwindSafe(f)) {
        Ok(v) => Ok(v),
        Err(_) => Err(LAST_PANIC.with(|p| p.borrow_mut().take()).unwrap_or_else(|| "panic (no message)".into())),
    }
}

/// Short stable tag for a panic location: "nuts.rs:307" from ".../src/nuts.rs:307".
pub fn panic_site(msg: &str) -> String {
    let loc = msg.rsplit(" at ").next().unwrap_or("");
    let file = loc.rsplit('/').next().unwrap_or(loc);
    file.to_string()
}
