//! `ScriptMath`: a `Math` implementation that delegates to `CpuMath<F>` while recording calls,
//! optionally scripting the momentum refresh; `ScriptRng`: a scripted `rand::Rng`.

use std::collections::{HashMap, VecDeque};
use std::convert::Infallible;

use nuts_rs::{CpuLogpFunc, CpuMath, HasDims, ItemType, Math, Storable, Value};

#[derive(Clone, Debug)]
pub struct EshCall {
    pub grad: Vec<f64>,
    pub mom_in: Vec<f64>,
    pub mom_out: Vec<f64>,
    pub step: f64,
    pub delta_ke: f64,
}

#[derive(Clone, Debug)]
pub enum MathEvent {
    /// output of array_gaussian
    Gaussian(Vec<f64>),
    /// (input, output) of array_normalize
    Normalize(Vec<f64>, Vec<f64>),
    Esh(EshCall),
    /// logp evaluation (position)
    Logp,
    /// scalar_prods3 result (U-turn test)
    Turn(f64, f64),
}

#[derive(Default, Debug)]
pub struct MathLog {
    pub events: Vec<MathEvent>,
    pub record: bool,
    /// record only the outputs of array_gaussian
    pub record_gaussian: bool,
    pub n_gaussian: u64,
    pub n_normalize: u64,
    pub n_esh: u64,
    pub n_logp: u64,
    pub n_turn: u64,
    /// U-turn criteria evaluated on two identical end positions (exactly zero, deterministic)
    pub n_zero_span_turn: u64,
    /// smallest |turn product| seen relative to the magnitude of the operands
    pub min_abs_turn: f64,
}

pub struct ScriptMath<F: CpuLogpFunc> {
    pub inner: CpuMath<F>,
    /// Scripted outputs of `array_gaussian`, consumed front to back; when empty and
    /// `fixed_momentum` is None the real RNG is used.
    pub momentum_queue: VecDeque<Vec<f64>>,
    pub fixed_momentum: Option<Vec<f64>>,
    pub log: MathLog,
    /// track the relative magnitude of the U-turn products (costs a few vector copies per test)
    pub track_turns: bool,
    /// a clone of the density (for `Logged` it shares the evaluation log)
    pub dens: F,
}

impl<F: CpuLogpFunc + Clone> ScriptMath<F> {
    pub fn new(f: F) -> Self {
        ScriptMath {
            dens: f.clone(),
            inner: CpuMath::new(f),
            momentum_queue: VecDeque::new(),
            fixed_momentum: None,
            log: MathLog { min_abs_turn: f64::INFINITY, ..Default::default() },
            track_turns: false,
        }
    }
}

impl ScriptMath<crate::dens::Logged> {
    pub fn inner_evals(&self) -> u64 {
        self.dens.evals()
    }
}

impl<F: CpuLogpFunc> ScriptMath<F> {
    pub fn recording(mut self) -> Self {
        self.log.record = true;
        self
    }
    fn vec(&mut self, v: &V<F>) -> Vec<f64> {
        self.inner.box_array(v).into_vec()
    }
}

pub struct Exp<F: CpuLogpFunc>(<CpuMath<F> as Math>::ExpandedVector);

impl<F: CpuLogpFunc> Storable<ScriptMath<F>> for Exp<F> {
    fn names(p: &ScriptMath<F>) -> Vec<&str> {
        <<CpuMath<F> as Math>::ExpandedVector as Storable<CpuMath<F>>>::names(&p.inner)
    }
    fn item_type(p: &ScriptMath<F>, i: &str) -> ItemType {
        <<CpuMath<F> as Math>::ExpandedVector as Storable<CpuMath<F>>>::item_type(&p.inner, i)
    }
    fn dims<'a>(p: &'a ScriptMath<F>, i: &str) -> Vec<&'a str> {
        <<CpuMath<F> as Math>::ExpandedVector as Storable<CpuMath<F>>>::dims(&p.inner, i)
    }
    fn event_dim(p: &ScriptMath<F>, i: &str) -> Option<&'static str> {
        <<CpuMath<F> as Math>::ExpandedVector as Storable<CpuMath<F>>>::event_dim(&p.inner, i)
    }
    fn get_all<'a>(&'a mut self, p: &'a ScriptMath<F>) -> Vec<(&'a str, Option<Value>)> {
        self.0.get_all(&p.inner)
    }
}

impl<F: CpuLogpFunc> HasDims for ScriptMath<F> {
    fn dim_sizes(&self) -> HashMap<String, u64> {
        self.inner.dim_sizes()
    }
    fn coords(&self) -> HashMap<String, Value> {
        self.inner.coords()
    }
}

type V<F> = <CpuMath<F> as Math>::Vector;
type EV<F> = <CpuMath<F> as Math>::EigVectors;
type EL<F> = <CpuMath<F> as Math>::EigValues;

impl<F: CpuLogpFunc> Math for ScriptMath<F>
where
    Exp<F>: Send + Sync,
{
    type Vector = V<F>;
    type EigVectors = EV<F>;
    type EigValues = EL<F>;
    type LogpErr = <CpuMath<F> as Math>::LogpErr;
    type Err = <CpuMath<F> as Math>::Err;
    type FlowParameters = <CpuMath<F> as Math>::FlowParameters;
    type ExpandedVector = Exp<F>;

    fn new_array(&mut self) -> V<F> {
        self.inner.new_array()
    }
    fn new_eig_vectors<'a>(&'a mut self, vals: impl ExactSizeIterator<Item = &'a [f64]>) -> EV<F> {
        self.inner.new_eig_vectors(vals)
    }
    fn new_eig_values(&mut self, vals: &[f64]) -> EL<F> {
        self.inner.new_eig_values(vals)
    }
    fn logp_array(&mut self, p: &V<F>, g: &mut V<F>) -> Result<f64, Self::LogpErr> {
        self.log.n_logp += 1;
        if self.log.record {
            self.log.events.push(MathEvent::Logp);
        }
        self.inner.logp_array(p, g)
    }
    fn logp(&mut self, p: &[f64], g: &mut [f64]) -> Result<f64, Self::LogpErr> {
        self.log.n_logp += 1;
        self.inner.logp(p, g)
    }
    fn init_position<R: rand::Rng + ?Sized>(
        &mut self,
        r: &mut R,
        p: &mut V<F>,
        g: &mut V<F>,
    ) -> Result<f64, Self::LogpErr> {
        self.inner.init_position(r, p, g)
    }
    fn expand_vector<R: rand::Rng + ?Sized>(&mut self, r: &mut R, a: &V<F>) -> Result<Exp<F>, Self::Err> {
        Ok(Exp(self.inner.expand_vector(r, a)?))
    }
    fn dim(&self) -> usize {
        self.inner.dim()
    }
    fn vector_coord(&self) -> Option<Value> {
        self.inner.vector_coord()
    }
    fn scalar_prods3(&mut self, a: &V<F>, b: &V<F>, c: &V<F>, x: &V<F>, y: &V<F>) -> (f64, f64) {
        let r = self.inner.scalar_prods3(a, b, c, x, y);
        self.log.n_turn += 1;
        if !self.track_turns && !self.log.record {
            return r;
        }
        // relative magnitude of the turn products (for "numerically degenerate" detection)
        let av = self.vec(a);
        let bv = self.vec(b);
        let xv = self.vec(x);
        let yv = self.vec(y);
        let d: f64 = av.iter().zip(&bv).map(|(p, q)| (p - q) * (p - q)).sum::<f64>().sqrt();
        let s1 = d * xv.iter().map(|v| v * v).sum::<f64>().sqrt();
        let s2 = d * yv.iter().map(|v| v * v).sum::<f64>().sqrt();
        let rel = (r.0.abs() / s1.max(1e-300)).min(r.1.abs() / s2.max(1e-300));
        // a criterion evaluated on two bit-identical end positions is exactly zero whatever the rounding: it is a
        // deterministic decision (not turning), not a numerically degenerate one, and must not hide the run from
        // the mirrored-trajectory oracle (the unchanged code never compares a state with itself)
        let zero_span = d == 0.0 && r.0 == 0.0 && r.1 == 0.0;
        if zero_span {
            self.log.n_zero_span_turn += 1;
        } else if rel < self.log.min_abs_turn {
            self.log.min_abs_turn = rel;
        }
        if self.log.record {
            self.log.events.push(MathEvent::Turn(r.0, r.1));
        }
        r
    }
    fn scalar_prods2(&mut self, a: &V<F>, b: &V<F>, x: &V<F>, y: &V<F>) -> (f64, f64) {
        self.inner.scalar_prods2(a, b, x, y)
    }
    fn sq_norm_sum(&mut self, x: &V<F>, y: &V<F>) -> f64 {
        self.inner.sq_norm_sum(x, y)
    }
    fn read_from_slice(&mut self, d: &mut V<F>, s: &[f64]) {
        self.inner.read_from_slice(d, s)
    }
    fn write_to_slice(&mut self, s: &V<F>, d: &mut [f64]) {
        self.inner.write_to_slice(s, d)
    }
    fn eigs_as_array(&mut self, s: &EL<F>) -> Box<[f64]> {
        self.inner.eigs_as_array(s)
    }
    fn copy_into(&mut self, a: &V<F>, d: &mut V<F>) {
        self.inner.copy_into(a, d)
    }
    fn axpy_out(&mut self, x: &V<F>, y: &V<F>, a: f64, o: &mut V<F>) {
        self.inner.axpy_out(x, y, a, o)
    }
    fn axpy(&mut self, x: &V<F>, y: &mut V<F>, a: f64) {
        self.inner.axpy(x, y, a)
    }
    fn array_sum_ln(&mut self, a: &V<F>) -> f64 {
        self.inner.array_sum_ln(a)
    }
    fn fill_array(&mut self, a: &mut V<F>, v: f64) {
        self.inner.fill_array(a, v)
    }
    fn array_all_finite(&mut self, a: &V<F>) -> bool {
        self.inner.array_all_finite(a)
    }
    fn array_all_finite_and_nonzero(&mut self, a: &V<F>) -> bool {
        self.inner.array_all_finite_and_nonzero(a)
    }
    fn array_mult(&mut self, a: &V<F>, b: &V<F>, d: &mut V<F>) {
        self.inner.array_mult(a, b, d)
    }
    fn array_mult_inplace(&mut self, a: &mut V<F>, b: &V<F>) {
        self.inner.array_mult_inplace(a, b)
    }
    fn array_recip(&mut self, a: &V<F>, d: &mut V<F>) {
        self.inner.array_recip(a, d)
    }
    fn apply_lowrank_transform(&mut self, v: &EV<F>, l: &EL<F>, r: &V<F>, d: &mut V<F>) {
        self.inner.apply_lowrank_transform(v, l, r, d)
    }
    fn apply_lowrank_transform_inplace(&mut self, v: &EV<F>, l: &EL<F>, r: &mut V<F>) {
        self.inner.apply_lowrank_transform_inplace(v, l, r)
    }
    fn array_mult_eigs(&mut self, s: &V<F>, r: &V<F>, d: &mut V<F>, v: &EV<F>, l: &EL<F>) {
        self.inner.array_mult_eigs(s, r, d, v, l)
    }
    fn std_norm_flow(&mut self, p: &V<F>, po: &mut V<F>, v: &mut V<F>, e: f64) {
        self.inner.std_norm_flow(p, po, v, e)
    }
    fn std_norm_grad_flow(&mut self, p: &V<F>, g: &V<F>, v: &V<F>, vo: &mut V<F>, e: f64) {
        self.inner.std_norm_grad_flow(p, g, v, vo, e)
    }
    fn std_norm_grad_flow_inplace(&mut self, p: &V<F>, g: &V<F>, v: &mut V<F>, e: f64) {
        self.inner.std_norm_grad_flow_inplace(p, g, v, e)
    }
    fn array_normalize(&mut self, v: &mut V<F>) {
        self.log.n_normalize += 1;
        if self.log.record {
            let before = self.vec(v);
            self.inner.array_normalize(v);
            let after = self.vec(v);
            self.log.events.push(MathEvent::Normalize(before, after));
        } else {
            self.inner.array_normalize(v)
        }
    }
    fn esh_momentum_update(&mut self, g: &V<F>, m: &mut V<F>, s: f64) -> f64 {
        self.log.n_esh += 1;
        if self.log.record {
            let grad = self.vec(g);
            let mom_in = self.vec(m);
            let d = self.inner.esh_momentum_update(g, m, s);
            let mom_out = self.vec(m);
            self.log.events.push(MathEvent::Esh(EshCall { grad, mom_in, mom_out, step: s, delta_ke: d }));
            d
        } else {
            self.inner.esh_momentum_update(g, m, s)
        }
    }
    fn array_vector_dot(&mut self, a: &V<F>, b: &V<F>) -> f64 {
        self.inner.array_vector_dot(a, b)
    }
    fn array_gaussian<R: rand::Rng + ?Sized>(&mut self, r: &mut R, d: &mut V<F>, s: &V<F>) {
        self.log.n_gaussian += 1;
        if let Some(m) = self.momentum_queue.pop_front() {
            self.inner.read_from_slice(d, &m);
        } else if let Some(m) = &self.fixed_momentum {
            let m = m.clone();
            self.inner.read_from_slice(d, &m);
        } else {
            self.inner.array_gaussian(r, d, s)
        }
        if self.log.record || self.log.record_gaussian {
            let out = self.vec(d);
            self.log.events.push(MathEvent::Gaussian(out));
        }
    }
    fn array_gaussian_eigs<R: rand::Rng + ?Sized>(
        &mut self,
        r: &mut R,
        d: &mut V<F>,
        s: &V<F>,
        l: &EL<F>,
        v: &EV<F>,
    ) {
        self.inner.array_gaussian_eigs(r, d, s, l, v)
    }
    fn array_update_variance(&mut self, m: &mut V<F>, v: &mut V<F>, x: &V<F>, s: f64) {
        self.inner.array_update_variance(m, v, x, s)
    }
    fn array_update_var_inv_std_draw(
        &mut self,
        i: &mut V<F>,
        s: &mut V<F>,
        d: &V<F>,
        sc: f64,
        f: Option<f64>,
        c: (f64, f64),
    ) {
        self.inner.array_update_var_inv_std_draw(i, s, d, sc, f, c)
    }
    fn array_update_var_inv_std_draw_grad(
        &mut self,
        i: &mut V<F>,
        s: &mut V<F>,
        d: &V<F>,
        g: &V<F>,
        f: Option<f64>,
        c: (f64, f64),
    ) {
        self.inner.array_update_var_inv_std_draw_grad(i, s, d, g, f, c)
    }
    fn array_update_var_inv_std_grad(&mut self, i: &mut V<F>, s: &mut V<F>, g: &V<F>, f: f64, c: (f64, f64)) {
        self.inner.array_update_var_inv_std_grad(i, s, g, f, c)
    }
    fn inv_transform_normalize(
        &mut self,
        p: &Self::FlowParameters,
        a: &V<F>,
        b: &V<F>,
        c: &mut V<F>,
        d: &mut V<F>,
    ) -> Result<f64, Self::LogpErr> {
        self.inner.inv_transform_normalize(p, a, b, c, d)
    }
    fn init_from_untransformed_position(
        &mut self,
        p: &Self::FlowParameters,
        a: &V<F>,
        b: &mut V<F>,
        c: &mut V<F>,
        d: &mut V<F>,
    ) -> Result<(f64, f64), Self::LogpErr> {
        self.log.n_logp += 1;
        self.inner.init_from_untransformed_position(p, a, b, c, d)
    }
    fn init_from_transformed_position(
        &mut self,
        p: &Self::FlowParameters,
        a: &mut V<F>,
        b: &mut V<F>,
        c: &V<F>,
        d: &mut V<F>,
    ) -> Result<(f64, f64), Self::LogpErr> {
        self.log.n_logp += 1;
        self.inner.init_from_transformed_position(p, a, b, c, d)
    }
    fn update_transformation<'a, R: rand::Rng + ?Sized>(
        &'a mut self,
        r: &mut R,
        a: impl ExactSizeIterator<Item = &'a V<F>>,
        b: impl ExactSizeIterator<Item = &'a V<F>>,
        c: impl ExactSizeIterator<Item = &'a f64>,
        p: &'a mut Self::FlowParameters,
    ) -> Result<(), Self::LogpErr> {
        self.inner.update_transformation(r, a, b, c, p)
    }
    fn new_transformation<R: rand::Rng + ?Sized>(
        &mut self,
        r: &mut R,
        d: usize,
        c: u64,
    ) -> Result<Self::FlowParameters, Self::LogpErr> {
        self.inner.new_transformation(r, d, c)
    }
    fn init_transformation<R: rand::Rng + ?Sized>(
        &mut self,
        r: &mut R,
        a: &V<F>,
        b: &V<F>,
        c: u64,
    ) -> Result<Self::FlowParameters, Self::LogpErr> {
        self.inner.init_transformation(r, a, b, c)
    }
    fn transformation_id(&self, p: &Self::FlowParameters) -> Result<i64, Self::LogpErr> {
        self.inner.transformation_id(p)
    }
}

// ── ScriptRng ───────────────────────────────────────────────────────────────

#[derive(Clone, Copy, Debug, PartialEq, Eq)]
pub enum ReqKind {
    U32,
    U64,
    Bytes,
}

/// Every request is answered from `script` (a full 64-bit word; a `u32` request returns the
/// upper half); unscripted requests get the default for their kind.
#[derive(Default, Debug)]
pub struct ScriptRng {
    pub script: Vec<u64>,
    pub pos: usize,
    pub log: Vec<(ReqKind, u64)>,
    pub default_u32: u64,
    pub default_u64: u64,
}

impl ScriptRng {
    pub fn new(script: Vec<u64>) -> Self {
        ScriptRng { script, pos: 0, log: vec![], default_u32: 0, default_u64: u64::MAX }
    }
    pub fn unscripted(&self) -> usize {
        self.log.len().saturating_sub(self.script.len())
    }
}

impl rand::TryRng for ScriptRng {
    type Error = Infallible;
    fn try_next_u32(&mut self) -> Result<u32, Infallible> {
        let v = self.script.get(self.pos).copied().unwrap_or(self.default_u32);
        self.pos += 1;
        self.log.push((ReqKind::U32, v));
        Ok((v >> 32) as u32)
    }
    fn try_next_u64(&mut self) -> Result<u64, Infallible> {
        let v = self.script.get(self.pos).copied().unwrap_or(self.default_u64);
        self.pos += 1;
        self.log.push((ReqKind::U64, v));
        Ok(v)
    }
    fn try_fill_bytes(&mut self, d: &mut [u8]) -> Result<(), Infallible> {
        for b in d.iter_mut() {
            *b = 0
        }
        self.log.push((ReqKind::Bytes, 0));
        Ok(())
    }
}
