//! Schedule controller for the parallel sampler: event log, seeded perturbation and gates on
//! the schedule points that the hook commit placed in `sampler.rs`.

use std::cell::Cell;
use std::collections::HashMap;
use std::sync::atomic::{AtomicU64, Ordering};
use std::sync::{Arc, Condvar, Mutex, OnceLock};
use std::time::Duration;

pub use nuts_rs::verif::sched_point as pt;

thread_local! {
    static CURRENT_CHAIN: Cell<i64> = const { Cell::new(-1) };
}

/// Chain id of the chain running on the calling thread (-1: controller / unknown).
pub fn current_chain() -> i64 {
    CURRENT_CHAIN.with(|c| c.get())
}

/// Global logical clock shared by the schedule points, the recording storage backend and the
/// client side call/return events.
pub static CLOCK: AtomicU64 = AtomicU64::new(1);

pub fn tick() -> u64 {
    CLOCK.fetch_add(1, Ordering::SeqCst)
}

#[derive(Clone, Copy, Debug, PartialEq, Eq)]
pub struct Event {
    pub clock: u64,
    pub point: u32,
    /// -1 for the controller
    pub chain: i64,
    pub draw: u64,
}

#[derive(Clone, Debug)]
pub struct Gate {
    pub point: u32,
    pub chain: i64,
    /// only fire when the draw counter passed to the schedule point equals this (None: any)
    pub draw: Option<u64>,
    /// how often this gate may fire
    pub remaining: u32,
}

#[derive(Default)]
pub struct Config {
    pub log_events: bool,
    /// seeded perturbation: probability (per mille) of yielding / sleeping at a point
    pub yield_permille: u32,
    pub sleep_permille: u32,
    pub max_sleep_us: u64,
    pub seed: u64,
    pub gates: Vec<Gate>,
    pub gate_timeout: Duration,
}

struct Shared {
    config: Mutex<Config>,
    events: Mutex<Vec<Event>>,
    /// gates currently holding a thread: id -> released flag
    held: Mutex<HashMap<u64, bool>>,
    held_cv: Condvar,
    next_gate_id: AtomicU64,
    gate_timeouts: AtomicU64,
    counter: AtomicU64,
    /// gate ids in the order they started holding
    arrivals: Mutex<Vec<(u64, u32, i64, u64)>>,
    arrivals_cv: Condvar,
    /// last schedule point reached per chain and how many points the chain has reached so far (a chain that was
    /// resumed, drew and paused again is at the same point but not at the same count)
    last_point: Mutex<HashMap<i64, (u32, u64)>>,
}

static SHARED: OnceLock<Arc<Shared>> = OnceLock::new();

fn shared() -> &'static Arc<Shared> {
    SHARED.get_or_init(|| {
        let s = Arc::new(Shared {
            config: Mutex::new(Config::default()),
            events: Mutex::new(Vec::new()),
            held: Mutex::new(HashMap::new()),
            held_cv: Condvar::new(),
            next_gate_id: AtomicU64::new(1),
            gate_timeouts: AtomicU64::new(0),
            counter: AtomicU64::new(0),
            arrivals: Mutex::new(Vec::new()),
            arrivals_cv: Condvar::new(),
            last_point: Mutex::new(HashMap::new()),
        });
        let s2 = s.clone();
        nuts_rs::verif::set_sched_callback(Some(Arc::new(move |point, chain, draw| {
            on_point(&s2, point, chain, draw)
        })));
        s
    })
}

fn mix(mut x: u64) -> u64 {
    x = (x ^ (x >> 30)).wrapping_mul(0xBF58476D1CE4E5B9);
    x = (x ^ (x >> 27)).wrapping_mul(0x94D049BB133111EB);
    x ^ (x >> 31)
}

fn on_point(s: &Shared, point: u32, chain: u64, draw: u64) {
    let chain_i = if chain == u64::MAX { -1 } else { chain as i64 };
    if point == pt::CHAIN_START {
        CURRENT_CHAIN.with(|c| c.set(chain_i));
    }
    if chain_i >= 0 {
        let mut lp = s.last_point.lock().unwrap();
        let n = lp.get(&chain_i).map(|e| e.1).unwrap_or(0);
        lp.insert(chain_i, (point, n + 1));
        drop(lp);
    }
    let (log, yield_pm, sleep_pm, max_sleep, seed, gate, timeout) = {
        let mut cfg = s.config.lock().unwrap();
        let mut gate = None;
        for g in cfg.gates.iter_mut() {
            if g.remaining > 0
                && g.point == point
                && g.chain == chain_i
                && g.draw.map(|d| d == draw).unwrap_or(true)
            {
                g.remaining -= 1;
                gate = Some(());
                break;
            }
        }
        (
            cfg.log_events,
            cfg.yield_permille,
            cfg.sleep_permille,
            cfg.max_sleep_us,
            cfg.seed,
            gate,
            cfg.gate_timeout,
        )
    };
    if log {
        let clock = tick();
        s.events.lock().unwrap().push(Event { clock, point, chain: chain_i, draw });
    }
    if gate.is_some() {
        let id = s.next_gate_id.fetch_add(1, Ordering::SeqCst);
        s.held.lock().unwrap().insert(id, false);
        {
            s.arrivals.lock().unwrap().push((id, point, chain_i, draw));
            s.arrivals_cv.notify_all();
        }
        let deadline = std::time::Instant::now() + timeout;
        let mut held = s.held.lock().unwrap();
        loop {
            if held.get(&id).copied().unwrap_or(true) {
                break;
            }
            let now = std::time::Instant::now();
            if now >= deadline {
                s.gate_timeouts.fetch_add(1, Ordering::SeqCst);
                break;
            }
            let (h, _) = s.held_cv.wait_timeout(held, deadline - now).unwrap();
            held = h;
        }
        held.remove(&id);
    }
    if yield_pm > 0 || sleep_pm > 0 {
        let n = s.counter.fetch_add(1, Ordering::Relaxed);
        let r = mix(seed ^ n.wrapping_mul(0x9E3779B97F4A7C15) ^ ((point as u64) << 48) ^ chain);
        let roll = (r % 1000) as u32;
        if roll < sleep_pm {
            let us = (r >> 20) % max_sleep.max(1);
            std::thread::sleep(Duration::from_micros(us));
        } else if roll < sleep_pm + yield_pm {
            std::thread::yield_now();
        }
    }
}

/// Make sure the callback is installed (idempotent) and reset the controller for a new case.
pub fn reset(cfg: Config) {
    let s = shared();
    *s.config.lock().unwrap() = cfg;
    s.events.lock().unwrap().clear();
    s.arrivals.lock().unwrap().clear();
    s.last_point.lock().unwrap().clear();
    let mut held = s.held.lock().unwrap();
    for v in held.values_mut() {
        *v = true;
    }
    s.held_cv.notify_all();
    drop(held);
    s.gate_timeouts.store(0, Ordering::SeqCst);
}

/// Last schedule point reached by every chain that has started.
pub fn chain_points() -> HashMap<i64, (u32, u64)> {
    shared().last_point.lock().unwrap().clone()
}

pub fn install() {
    let _ = shared();
}

pub fn take_events() -> Vec<Event> {
    std::mem::take(&mut *shared().events.lock().unwrap())
}

pub fn gate_timeouts() -> u64 {
    shared().gate_timeouts.load(Ordering::SeqCst)
}

/// Wait until `n` gates have been reached (in total since the last reset); returns their
/// descriptions or None on timeout.
pub fn wait_arrivals(n: usize, timeout: Duration) -> Option<Vec<(u64, u32, i64, u64)>> {
    let s = shared();
    let deadline = std::time::Instant::now() + timeout;
    let mut arr = s.arrivals.lock().unwrap();
    loop {
        if arr.len() >= n {
            return Some(arr.clone());
        }
        let now = std::time::Instant::now();
        if now >= deadline {
            return None;
        }
        let (a, _) = s.arrivals_cv.wait_timeout(arr, deadline - now).unwrap();
        arr = a;
    }
}

/// Release one held gate (by id) or all of them.
pub fn release(id: Option<u64>) {
    let s = shared();
    let mut held = s.held.lock().unwrap();
    match id {
        Some(id) => {
            if let Some(v) = held.get_mut(&id) {
                *v = true;
            }
        }
        None => {
            for v in held.values_mut() {
                *v = true;
            }
        }
    }
    s.held_cv.notify_all();
}

/// Remove all gates that did not fire yet.
pub fn clear_gates() {
    shared().config.lock().unwrap().gates.clear();
}

/// Hash of the sequence of (role, point) pairs: an interleaving signature.
pub fn signature(events: &[Event]) -> u64 {
    let mut h = crate::util::Fnv::new();
    for e in events {
        h.u64(((e.chain + 1) as u64) << 32 | e.point as u64);
    }
    h.finish()
}
