//! C05 — density faults become divergences or errors, never panics or bad draws.
//!
//! Fault enumeration: a scenario (set_position + draws through warmup into sampling) is run once
//! without faults to learn the sequence of density evaluations; then every evaluation index k is
//! combined with every fault kind (single faults exhaustively, pairs seeded).

use std::collections::BTreeMap;

use serde_json::{Value as J, json};

use crate::Args;
use crate::chains::{Preset, chain_on, start_point};
use crate::dens::{ALL_FAULTS, Fault, Logged, Target};
use crate::report::Report;
use crate::util::{Fnv, HRng, guard, panic_site};

#[derive(Clone, Debug)]
pub struct Scenario {
    pub preset: Preset,
    pub kind: &'static str,
    pub dim: usize,
    pub target: &'static str,
    pub seed: u64,
    pub draws: u64,
    pub num_tune: u64,
    pub dynamic: bool,
    /// "default", "extra_doublings" (NUTS: two unchecked doublings after a U-turn), "fixed_step" (NUTS without step size
    /// adaptation), "draw_only_estimate" (diagonal scales from the draw variance only)
    pub variant: &'static str,
}

#[derive(Clone, Debug)]
enum CallResult {
    Ok { diverging: bool, position: Vec<f64>, logp: Option<f64>, num_steps: u64, step_size: f64 },
    InitOk,
    Err(String),
    Panic(String),
}

#[derive(Clone, Debug)]
struct Call {
    /// evaluation indices [start, end) consumed by this call
    start: u64,
    end: u64,
    result: CallResult,
    /// a set_position call (the first call; a second one follows when the first was refused)
    is_init: bool,
}

#[derive(Clone, Debug)]
struct Trace {
    calls: Vec<Call>,
    /// (position, faulted?) per evaluation
    evals: Vec<(Vec<f64>, bool)>,
    start: Vec<f64>,
}

fn patches_of(s: &Scenario) -> Vec<(&'static str, J)> {
    let mut p: Vec<(&'static str, J)> = vec![
        ("num_tune", json!(s.num_tune)),
        ("num_draws", json!(100)),
        ("adapt_options.early_mass_matrix_switch_freq", json!(3)),
        ("adapt_options.mass_matrix_switch_freq", json!(4)),
        ("adapt_options.transform_update_freq", json!(3)),
        ("adapt_options.step_size_settings.jitter", J::Null),
    ];
    if s.preset.is_nuts() {
        p.push(("maxdepth", json!(4)));
        p.push(("trajectory_kind", json!(s.kind)));
        match s.variant {
            "extra_doublings" => {
                p.push(("maxdepth", json!(3)));
                p.push(("extra_doublings", json!(2)));
            }
            "fixed_step" => p.push(("adapt_options.step_size_settings.adapt_options.method", json!({"Fixed": 0.3}))),
            "draw_only_estimate" => p.push(("adapt_options.mass_matrix_options.use_grad_based_estimate", json!(false))),
            _ => {}
        }
    } else {
        p.push(("trajectory_kind", json!(s.kind)));
        p.push(("step_size", json!(0.25)));
        p.push(("momentum_decoherence_length", json!(1.0)));
        p.push(("dynamic_step_size", json!(s.dynamic)));
        p.push(("adapt_options.step_size_settings.adapt_options.method", json!({"Fixed": 0.25})));
    }
    p
}

fn make_target(s: &Scenario, rng: &mut HRng) -> Target {
    match s.target {
        "iso" => Target::iso(s.dim, 0.2),
        _ => Target::scaled(rng, s.dim, 5.0),
    }
}

fn run_scenario(s: &Scenario, plan: &BTreeMap<u64, Fault>, extra_draws: u64) -> Trace {
    let mut trng = HRng::new(s.seed);
    let target = make_target(s, &mut trng);
    let start = start_point(&target, &mut trng);
    let dens = Logged::new(target, true);
    dens.log.lock().unwrap().plan = plan.clone();
    let log = dens.log.clone();
    let patches = patches_of(s);
    let mut calls = vec![];
    let count = |l: &crate::dens::SharedLog| l.lock().unwrap().count;
    let built = guard(|| chain_on(s.preset, &patches, dens.clone(), s.seed).expect("settings").0);
    let mut chain = match built {
        Ok(c) => c,
        Err(p) => {
            calls.push(Call { start: 0, end: 0, result: CallResult::Panic(p), is_init: true });
            return Trace { calls, evals: vec![], start };
        }
    };
    let c0 = count(&log);
    let r = guard(|| chain.set_position(&start));
    let c1 = count(&log);
    let res = match r {
        Ok(Ok(())) => CallResult::InitOk,
        Ok(Err(e)) => CallResult::Err(format!("{e:#}")),
        Err(p) => CallResult::Panic(p),
    };
    let mut stop = !matches!(res, CallResult::InitOk);
    let refused = matches!(res, CallResult::Err(_));
    calls.push(Call { start: c0, end: c1, result: res, is_init: true });
    let fatal_in_init = plan.iter().any(|(k, f)| *f == Fault::Fatal && c0 <= *k && *k < c1);
    if refused && !fatal_in_init {
        // a refused starting point is retried on the same chain object, as the parallel sampler does
        let c0 = count(&log);
        let r = guard(|| chain.set_position(&start));
        let c1 = count(&log);
        let res = match r {
            Ok(Ok(())) => CallResult::InitOk,
            Ok(Err(e)) => CallResult::Err(format!("{e:#}")),
            Err(p) => CallResult::Panic(p),
        };
        stop = !matches!(res, CallResult::InitOk);
        calls.push(Call { start: c0, end: c1, result: res, is_init: true });
    }
    if !stop {
        for _ in 0..(s.draws + extra_draws) {
            let a = count(&log);
            let r = guard(|| chain.draw());
            let b = count(&log);
            let res = match r {
                Ok(Ok(o)) => CallResult::Ok {
                    diverging: o.progress.diverging,
                    logp: o.f64("logp"),
                    num_steps: o.progress.num_steps,
                    step_size: o.progress.step_size,
                    position: o.position,
                },
                Ok(Err(e)) => CallResult::Err(format!("{e:#}")),
                Err(p) => CallResult::Panic(p),
            };
            let stop = !matches!(res, CallResult::Ok { .. });
            calls.push(Call { start: a, end: b, result: res, is_init: false });
            if stop {
                break;
            }
        }
    }
    let evals = log.lock().unwrap().records.iter().map(|r| (r.position.clone(), r.fault.is_some())).collect();
    Trace { calls, evals, start }
}

fn scen_json(s: &Scenario) -> J {
    json!({"preset": s.preset.name(), "kind": s.kind, "dim": s.dim, "target": s.target, "seed": s.seed, "draws": s.draws,
        "num_tune": s.num_tune, "dynamic": s.dynamic, "variant": s.variant})
}

fn scen_from_json(j: &J) -> Scenario {
    let kind = match j["kind"].as_str().unwrap() {
        "Euclidean" => "Euclidean",
        "ExactNormal" => "ExactNormal",
        "Microcanonical" => "Microcanonical",
        _ => "EuclideanEarlyThenMicrocanonical",
    };
    Scenario {
        preset: Preset::from_name(j["preset"].as_str().unwrap()).unwrap(),
        kind,
        dim: j["dim"].as_u64().unwrap() as usize,
        target: if j["target"].as_str().unwrap() == "iso" { "iso" } else { "scaled" },
        seed: j["seed"].as_u64().unwrap(),
        draws: j["draws"].as_u64().unwrap(),
        num_tune: j["num_tune"].as_u64().unwrap(),
        dynamic: j["dynamic"].as_bool().unwrap(),
        variant: match j.get("variant").and_then(|v| v.as_str()).unwrap_or("default") {
            "extra_doublings" => "extra_doublings",
            "fixed_step" => "fixed_step",
            "draw_only_estimate" => "draw_only_estimate",
            _ => "default",
        },
    }
}

fn same_bits(a: &[f64], b: &[f64]) -> bool {
    a.len() == b.len() && a.iter().zip(b).all(|(x, y)| x.to_bits() == y.to_bits())
}

/// Judge one faulted run against the fault-free baseline.
fn judge(report: &mut Report, s: &Scenario, base: &Trace, plan: &BTreeMap<u64, Fault>, tr: &Trace, verbose: bool) {
    let pname = s.preset.name();
    let replay = json!({"scenario": scen_json(s), "plan": plan.iter().map(|(k, f)| json!([k, f.name()])).collect::<Vec<_>>()});
    let kinds: Vec<&str> = plan.values().map(|f| f.name()).collect();
    let kind_tag = kinds.join("+");
    let dynamic_tag = if s.preset.is_nuts() { "" } else if s.dynamic { ":dynamic" } else { ":static" };
    // the option variant of the scenario is part of the replay payload, not of the signature
    let sig = |what: &str| format!("C05:{pname}:{}{dynamic_tag}:{what}", s.kind);
    let single = plan.len() == 1;
    let (&k0, _) = plan.iter().next().unwrap();
    let mut first_fault_call = None;
    for (ci, call) in tr.calls.iter().enumerate() {
        // no panic, anywhere
        if let CallResult::Panic(p) = &call.result {
            let where_ = if call.is_init { "set_position" } else { "draw" };
            report.violation(sig(&format!("panic_in_{where_}:{}", panic_site(p))), format!("faults {kind_tag}: call {ci} panicked: {p}"), replay.clone());
            return;
        }
        let here: Vec<(u64, Fault)> = plan.iter().filter(|(k, _)| call.start <= **k && **k < call.end).map(|(k, f)| (*k, *f)).collect();
        if !here.is_empty() && first_fault_call.is_none() {
            first_fault_call = Some(ci);
        }
        let is_first = first_fault_call == Some(ci);
        let at_start = |k: u64| tr.evals.get(k as usize).map(|e| same_bits(&e.0, &tr.start)).unwrap_or(false);
        // site of a fault inside a draw, judged on the fault-free run (valid for the first faulted call only)
        let base_steps = match base.calls.get(ci).map(|c| &c.result) {
            Some(CallResult::Ok { num_steps, .. }) => Some(*num_steps),
            _ => None,
        };
        let base_pos = match base.calls.get(ci).map(|c| &c.result) {
            Some(CallResult::Ok { position, .. }) => Some(position.clone()),
            _ => None,
        };
        // a draw evaluates a point it has evaluated before only when the step size search is re-run from the current
        // point (after the first transformation update): recognisable in the faulted trace itself
        let prev_pos: Option<Vec<f64>> = if call.is_init {
            None
        } else {
            match tr.calls.get(ci - 1).map(|c| &c.result) {
                Some(CallResult::Ok { position, .. }) => Some(position.clone()),
                _ => Some(tr.start.clone()),
            }
        };
        let revisit = |k: u64| -> bool {
            let Some(e) = tr.evals.get(k as usize) else { return false };
            prev_pos.as_ref().map(|p| same_bits(p, &e.0)).unwrap_or(false)
                || tr.evals[call.start as usize..k as usize].iter().any(|(p, faulted)| !*faulted && same_bits(p, &e.0))
        };
        let site = |k: u64| -> &'static str {
            if call.is_init {
                if at_start(k) { "initial_point" } else { "step_size_search" }
            } else if revisit(k) {
                // (also in the first faulted call: an earlier fault of the same call may have ended the trajectory)
                "research_current_point"
            } else if !is_first {
                "after_earlier_fault"
            } else if base_steps.map(|n| k - call.start < n).unwrap_or(false) {
                "trajectory"
            } else if base_pos.as_ref().zip(tr.evals.get(k as usize)).map(|(p, e)| same_bits(p, &e.0)).unwrap_or(false) {
                "research_current_point"
            } else {
                "research_trial_step"
            }
        };
        let fatal = here.iter().find(|(_, f)| *f == Fault::Fatal);
        match &call.result {
            CallResult::Err(e) => {
                if fatal.is_some() {
                    // the call that evaluated the unrecoverable error returned Err: sampling ends here
                } else if call.is_init {
                    if !here.iter().any(|(k, _)| at_start(*k)) {
                        let st = here.first().map(|(k, _)| site(*k)).unwrap_or("no_fault_in_call");
                        report.violation(sig(&format!("recoverable_fault_fails_set_position:{st}")), format!("faults {kind_tag}: set_position returned Err: {e}"), replay.clone());
                    }
                } else if let Some((k, _)) = here.iter().find(|(k, _)| *k + 1 == call.end).or(here.first()) {
                    // the fault that made the call fail is the one at its last evaluation (an earlier fault of the same
                    // call was absorbed)
                    report.violation(sig(&format!("recoverable_fault_returned_err:{}", site(*k))), format!("faults {kind_tag}: draw {} returned Err: {e}", ci - 1), replay.clone());
                } else {
                    report.violation(sig("error_after_recovered_fault"), format!("faults {kind_tag}: draw {} returned Err although no fault was evaluated in it: {e}", ci - 1), replay.clone());
                }
                if call.is_init && tr.calls.get(ci + 1).map(|c| c.is_init).unwrap_or(false) {
                    continue; // the refused starting point is retried
                }
                break;
            }
            CallResult::InitOk | CallResult::Ok { .. } if fatal.is_some() => {
                let (k, _) = fatal.unwrap();
                let where_ = if call.is_init { "set_position" } else { "draw" };
                report.violation(
                    sig(&format!("unrecoverable_error_swallowed_in_{where_}:{}", site(*k))),
                    format!("faults {kind_tag}: unrecoverable error at evaluation {k} (#{} of call {ci}) but the call returned Ok", k - call.start),
                    replay.clone(),
                );
                break;
            }
            CallResult::Ok { diverging, position, logp, num_steps, step_size } => {
                let prev = match tr.calls.get(ci - 1).map(|c| &c.result) {
                    Some(CallResult::Ok { position, .. }) => position.clone(),
                    _ => tr.start.clone(),
                };
                if is_first && here.iter().any(|(k, _)| site(*k) == "trajectory") {
                    let evals_in_call = call.end - call.start;
                    // MCLMC with dynamic step size may retry with smaller steps instead: then the call made more
                    // density evaluations than it reports steps
                    let retried = !s.preset.is_nuts() && s.dynamic && evals_in_call > *num_steps;
                    if !*diverging && !retried {
                        report.violation(
                            sig("fault_in_trajectory_not_divergent"),
                            format!("faults {kind_tag}: fault at a leapfrog of draw {} (baseline {:?} steps) but the draw is not divergent (num_steps {num_steps}, {evals_in_call} evaluations)", ci - 1, base_steps),
                            replay.clone(),
                        );
                    }
                }
                if !s.preset.is_nuts() && *diverging && !same_bits(position, &prev) {
                    report.violation(sig("mclmc_divergent_draw_moved"), format!("faults {kind_tag}: draw {}", ci - 1), replay.clone());
                }
                if position.iter().any(|x| !x.is_finite()) {
                    report.violation(sig("nonfinite_position"), format!("faults {kind_tag}: draw {}: {:?}", ci - 1, position), replay.clone());
                }
                if logp.map(|l| !l.is_finite()).unwrap_or(false) {
                    report.violation(sig("nonfinite_logp_of_returned_draw"), format!("faults {kind_tag}: draw {}: logp {:?}", ci - 1, logp), replay.clone());
                }
                if !(step_size.is_finite() && *step_size > 0.0) {
                    report.violation(sig("bad_step_size"), format!("faults {kind_tag}: draw {}: step size {step_size}", ci - 1), replay.clone());
                }
                // a previously valid state: some un-faulted evaluation
                let valid = tr.evals[..call.end as usize].iter().any(|(p, faulted)| !*faulted && same_bits(p, position));
                if !valid && !position.is_empty() {
                    report.violation(sig("returned_draw_is_not_a_valid_state"), format!("faults {kind_tag}: draw {}: the returned position only occurs at a faulted evaluation", ci - 1), replay.clone());
                }
            }
            _ => {}
        }
    }
    let Some(fc) = first_fault_call else {
        report.inconclusive("fault index not reached");
        return;
    };
    // afterwards the chain must not be stuck in divergences (single recoverable faults only)
    if single && *plan.values().next().unwrap() != Fault::Fatal {
        let after: Vec<bool> = tr.calls.iter().skip(fc.max(1) + 1).filter_map(|c| match &c.result {
            CallResult::Ok { diverging, .. } => Some(*diverging),
            _ => None,
        }).collect();
        // (a chain whose short warmup left it with an unusable step size diverges on every draw without any fault: the
        // fault-free run of the scenario must be mostly free of divergences over the same calls)
        let base_after: Vec<bool> = base.calls.iter().skip(fc.max(1) + 1).filter_map(|c| match &c.result {
            CallResult::Ok { diverging, .. } => Some(*diverging),
            _ => None,
        }).collect();
        let base_clean = base_after.len() >= 8 && base_after.iter().filter(|d| **d).count() * 4 <= base_after.len();
        // (MCLMC presets are outside this property's quantifier; with a fixed step and a few warmup draws their
        // adaptation may end in a state where every draw diverges, after one early fault as well as without one)
        if after.len() >= 8 && after.iter().all(|d| *d) && base_clean && s.preset.is_nuts() {
            let part = if fc == 0 { "after_set_position" } else { "after_draw" };
            report.violation(
                sig(&format!("chain_stuck_divergent_{part}")),
                format!("fault {kind_tag} at evaluation {k0} (call {fc}): all {} following draws are divergent", after.len()),
                replay.clone(),
            );
        }
    }
    if verbose {
        for (i, c) in tr.calls.iter().enumerate() {
            eprintln!("  call {i}: evals {}..{} {}", c.start, c.end, match &c.result { CallResult::Ok { diverging, num_steps, .. } => format!("ok div={diverging} steps={num_steps}"), o => format!("{o:?}") });
        }
    }
}

fn scenarios(seed: u64, thorough: bool) -> Vec<Scenario> {
    let mut v = vec![];
    let mut rng = HRng::new(seed);
    let dims_nuts: &[usize] = if thorough { &[1, 3, 10, 17] } else { &[1, 3] };
    let dims_mclmc: &[usize] = if thorough { &[2, 3, 10, 17] } else { &[2, 3] };
    // the thorough tier repeats every scenario with six chain seeds and two warmup lengths
    let reps: &[(u64, u64)] = if thorough { &[(0, 8), (1, 8), (2, 8), (3, 20), (4, 20), (5, 3)] } else { &[(0, 8)] };
    for &(_rep, num_tune) in reps {
    for &preset in crate::chains::ALL_PRESETS.iter() {
        let kinds: &[&'static str] = if preset.is_nuts() { &["Euclidean", "ExactNormal"] } else { &["Microcanonical", "EuclideanEarlyThenMicrocanonical"] };
        for &kind in kinds {
            for &dim in if preset.is_nuts() { dims_nuts } else { dims_mclmc } {
                for dynamic in [false, true] {
                    if preset.is_nuts() && dynamic {
                        continue;
                    }
                    v.push(Scenario {
                        preset,
                        kind,
                        dim,
                        target: if dim % 2 == 1 { "iso" } else { "scaled" },
                        seed: rng.next_u64(),
                        draws: if thorough { num_tune + 22 } else { 12 },
                        num_tune,
                        dynamic,
                        variant: "default",
                    });
                    // rarely used options of the diagonal NUTS preset
                    if preset == Preset::DiagNuts && dim == 3 {
                        for variant in ["extra_doublings", "fixed_step", "draw_only_estimate"] {
                            v.push(Scenario { preset, kind, dim, target: "iso", seed: rng.next_u64(), draws: if thorough { num_tune + 22 } else { 12 }, num_tune, dynamic, variant });
                        }
                    }
                }
            }
        }
    }
    }
    v
}

pub fn run(args: &Args, report: &mut Report) {
    report.rule = "scenarios = 6 presets x kinetic / trajectory kinds x dims x (MCLMC: dynamic step size on/off): set_position + 12 draws \
        (num_tune 8) + 10 follow-up draws; single faults: every evaluation index of the fault-free run x 7 fault kinds (exhaustive); pairs: seeded. \
        distinct = (preset, kind, fault kind, call class: init / trajectory / search)".into();
    report.assumptions.push("an invalid *initial point* (evaluations at the start position during set_position) may be refused with Err; every other recoverable fault must be absorbed".into());
    if let Some(r) = &args.replay {
        let s = scen_from_json(&r["scenario"]);
        let plan: BTreeMap<u64, Fault> = r["plan"].as_array().unwrap().iter().map(|e| {
            (e[0].as_u64().unwrap(), *ALL_FAULTS.iter().find(|f| f.name() == e[1].as_str().unwrap()).unwrap())
        }).collect();
        let base = run_scenario(&s, &BTreeMap::new(), 10);
        let tr = run_scenario(&s, &plan, 10);
        report.eval();
        judge(report, &s, &base, &plan, &tr, true);
        return;
    }
    let scens = scenarios(args.seed ^ 0xC05, report.thorough());
    let n_pairs = report.size(600, 400_000);
    let seed = args.seed;
    // work items: (scenario, evaluation index chunk)
    let bases: Vec<Trace> = scens.iter().map(|s| run_scenario(s, &BTreeMap::new(), 10)).collect();
    for (s, b) in scens.iter().zip(&bases) {
        let ok = b.calls.iter().all(|c| matches!(c.result, CallResult::Ok { diverging: false, .. } | CallResult::InitOk));
        if !ok || b.calls.len() < (s.draws + 11) as usize {
            report.count("scenarios_with_natural_divergences", 1);
            if std::env::var("VERIF_TIMING").is_ok() {
                eprintln!("not clean: {} calls {:?}", scen_json(s), b.calls.iter().map(|c| match &c.result { CallResult::Ok { diverging, .. } => format!("{diverging}"), o => format!("{o:?}") }).collect::<Vec<_>>());
            }
        }
    }
    let mut items: Vec<(usize, u64)> = vec![];
    for (si, b) in bases.iter().enumerate() {
        let n = b.calls.iter().take(scens[si].draws as usize + 1).map(|c| c.end).max().unwrap_or(0);
        for k in 0..n {
            items.push((si, k));
        }
    }
    report.set("fault_free_evaluations", json!(items.len()));
    crate::report::par_run(report, items.len() as u64, |i, rep| {
        let (si, k) = items[i as usize];
        let s = &scens[si];
        for &f in ALL_FAULTS.iter() {
            let plan = BTreeMap::from([(k, f)]);
            let tr = run_scenario(s, &plan, 10);
            rep.eval();
            judge(rep, s, &bases[si], &plan, &tr, false);
            let class = match bases[si].calls.iter().position(|c| c.start <= k && k < c.end) {
                Some(0) => 0,
                Some(ci) => match &bases[si].calls[ci].result {
                    CallResult::Ok { num_steps, .. } if k - bases[si].calls[ci].start < *num_steps => 1,
                    _ => 2,
                },
                None => 3,
            };
            let mut h = Fnv::new();
            h.str(s.preset.name()).str(s.kind).str(f.name()).u64(class).u64(s.dynamic as u64);
            rep.nontrivial(h.finish());
        }
        if i % 997 == 0 {
            rep.sample(json!({"scenario": scen_json(s), "fault_at_evaluation": k, "kinds": ALL_FAULTS.iter().map(|f| f.name()).collect::<Vec<_>>()}));
        }
    });
    // pairs
    crate::report::par_run(report, n_pairs, |i, rep| {
        let mut rng = HRng::new(seed ^ 0xFA17).fork(i);
        let si = rng.below(scens.len() as u64) as usize;
        let s = &scens[si];
        let n = bases[si].calls.iter().take(s.draws as usize + 1).map(|c| c.end).max().unwrap_or(1);
        let k1 = rng.below(n);
        let k2 = (k1 + 1 + rng.below(40)).min(n + 20);
        let plan = BTreeMap::from([(k1, *rng.choose(&ALL_FAULTS)), (k2, *rng.choose(&ALL_FAULTS))]);
        let tr = run_scenario(s, &plan, 10);
        rep.eval();
        judge(rep, s, &bases[si], &plan, &tr, false);
        rep.count("fault_pairs", 1);
    });
}
