//! C14 — every storage backend returns exactly what the chains recorded.
//!
//! Recorded value streams (from real chains of all six presets, plus synthetic special values and
//! a multi-type expanded vector) are replayed into the real HashMap / ndarray / Arrow / CSV /
//! Zarr-sync / Zarr-async backends through the storage traits, and a few cases run end to end
//! through `Sampler` against the recording reference backend. Every backend is then read back
//! independently (result maps, arrays, Arrow buffers incl. null bitmaps and list offsets, CSV
//! text, a fresh zarrs reader on a snapshot of the store) and compared with the stream.

use std::collections::{BTreeMap, HashMap};
use std::time::Duration;

use arrow::array::{Array as ArrowArray, BooleanArray, Float32Array, Float64Array, Int64Array, LargeListArray, RecordBatch, StringArray, UInt64Array};
use arrow::datatypes::DataType;
use nuts_rs::verif::{StorageConfig, TraceStorage};
use nuts_rs::{
    ArrowConfig, CsvConfig, HashMapConfig, HashMapValue, ItemType, Math, Model, NdarrayConfig, NdarrayValue, Sampler, SamplerWaitResult,
    Settings, Value, ZarrAsyncConfig, ZarrConfig,
};
use serde_json::{Value as J, json};

use crate::Args;
use crate::chains::ALL_PRESETS;
use crate::report::Report;
use crate::storage_util::*;
use crate::util::{Fnv, HRng, guard};

#[derive(Clone, Debug, serde::Serialize, serde::Deserialize)]
struct Case {
    /// "replay": streams replayed through the storage traits; "e2e": through `Sampler`
    kind: String,
    spec: StreamSpec,
    store_warmup: bool,
    chunk: u64,
    /// flush + inspect after this many record rounds
    inspect_at: Option<u64>,
    /// Zarr traces below the group "/grp" instead of the root
    group: bool,
    /// each Zarr case is repeated (the event-array length depends on HashMap iteration order)
    zarr_reps: u32,
    fs: bool,
    async_object: bool,
    csv_precision: usize,
    /// e2e only: "multi" (MultiModel) or "vmodel" (crate::dens::VModel, variant 0)
    model: String,
    /// restrict to these backends (replay of a single finding); empty = all
    #[serde(default)]
    only: Vec<String>,
}

/// What a backend check sees: the (prefix of the) recorded streams and the run parameters.
struct View<'a> {
    schema: &'a FullSchema,
    recs: Vec<&'a [Rec]>,
    failed: &'a [bool],
    n_tune: u64,
    n_draws: u64,
    finalized: bool,
    /// effective for this backend (true if the backend has no such option)
    store_warmup: bool,
}

impl View<'_> {
    fn tag(&self, s: &str) -> String {
        if self.finalized { s.to_string() } else { format!("inspect_{s}") }
    }
    fn kept<'b>(&self, c: usize) -> impl Iterator<Item = &'b Rec> + use<'_, 'b>
    where
        Self: 'b,
    {
        let sw = self.store_warmup;
        self.recs[c].iter().filter(move |r| sw || !r.tuning)
    }
}

#[derive(Default)]
struct BOut {
    findings: Vec<Finding>,
    values: u64,
    arrays: u64,
    compact: Option<Compact>,
    notes: Vec<(String, u64)>,
}

impl BOut {
    fn find(&mut self, sig: String, detail: String) {
        if self.findings.len() < 400 {
            self.findings.push(Finding { sig, detail });
        }
    }
}

trait Backend {
    type Cfg: StorageConfig;
    type Env;
    const NAME: &'static str;
    const HAS_STORE_WARMUP: bool;
    const ZARR: bool = false;
    fn make(case: &Case) -> Result<(Self::Cfg, Self::Env), String>;
    fn check(env: &Self::Env, fin: &Fin<Self::Cfg>, case: &Case, view: &View, out: &mut BOut);
}

/// Groups of schema variables sharing a name (one container per name in most backends).
fn name_groups(vars: &[Var]) -> Vec<Vec<&Var>> {
    let mut groups: Vec<Vec<&Var>> = vec![];
    for v in vars {
        match groups.iter_mut().find(|g| g[0].name == v.name) {
            Some(g) => g.push(v),
            None => groups.push(vec![v]),
        }
    }
    groups
}

// ── HashMap ─────────────────────────────────────────────────────────────────

struct HashMapB;
impl Backend for HashMapB {
    type Cfg = HashMapConfig;
    type Env = ();
    const NAME: &'static str = "hashmap";
    const HAS_STORE_WARMUP: bool = false;
    fn make(_: &Case) -> Result<(HashMapConfig, ()), String> {
        Ok((HashMapConfig::new(), ()))
    }
    fn check(_: &(), fin: &Fin<HashMapConfig>, _case: &Case, view: &View, out: &mut BOut) {
        if fin.len() != view.recs.len() {
            out.find(view.tag("chain_count"), format!("{} chain results for {} chains", fin.len(), view.recs.len()));
            return;
        }
        let mut compact = Compact::new();
        for (c, res) in fin.iter().enumerate() {
            if view.failed[c] {
                continue;
            }
            for (is_stat, vars, map) in [(true, &view.schema.stats, &res.stats), (false, &view.schema.draws, &res.draws)] {
                for g in name_groups(vars) {
                    // `draw` and `chain` are a documented omission of this backend
                    if SKIP.contains(&g[0].name.as_str()) {
                        continue;
                    }
                    let name = &g[0].name;
                    let Ok((exp, _)) = expected_pushes(view.recs[c], &g, |_| true) else { continue };
                    let act = match map.get(name) {
                        None => {
                            out.find(view.tag(&format!("missing_variable:{name}")), format!("chain {c}: no entry {name}"));
                            continue;
                        }
                        Some(HashMapValue::F64(v)) => Flat::F64(v.clone()),
                        Some(HashMapValue::F32(v)) => Flat::F32(v.clone()),
                        Some(HashMapValue::I64(v)) => Flat::I64(v.clone()),
                        Some(HashMapValue::U64(v)) => Flat::U64(v.clone()),
                        Some(HashMapValue::Bool(v)) => Flat::Bool(v.clone()),
                        Some(HashMapValue::String(v)) => Flat::Str(v.clone()),
                    };
                    out.arrays += 1;
                    out.values += exp.len() as u64;
                    if act.ty_name() != exp.ty_name() {
                        out.find(view.tag(&format!("type_mismatch:{name}")), format!("chain {c}: {name} is {} but declared {}", act.ty_name(), exp.ty_name()));
                    } else if act.len() != exp.len() || exp.first_diff(0, &act, 0, exp.len()).is_some() {
                        let k = exp.first_diff(0, &act, 0, exp.len().min(act.len())).unwrap_or(exp.len().min(act.len()));
                        out.find(
                            view.tag(&format!("values_mismatch:{name}")),
                            format!("chain {c}: {name} has {} elements, {} recorded; first difference at {k}: {} vs recorded {}", act.len(), exp.len(), act.show(k), exp.show(k)),
                        );
                    }
                    compact.insert((c, is_stat, name.clone()), act);
                }
            }
        }
        out.compact = Some(compact);
    }
}

// ── ndarray ─────────────────────────────────────────────────────────────────

struct NdarrayB;

fn nd_row(v: &NdarrayValue, c: usize, i: usize) -> Flat {
    use ndarray::Axis;
    macro_rules! row {
        ($a:expr) => {
            $a.index_axis(Axis(0), c).index_axis(Axis(0), i).iter().cloned().collect()
        };
    }
    match v {
        NdarrayValue::F64(a) => Flat::F64(row!(a)),
        NdarrayValue::F32(a) => Flat::F32(row!(a)),
        NdarrayValue::I64(a) => Flat::I64(row!(a)),
        NdarrayValue::U64(a) => Flat::U64(row!(a)),
        NdarrayValue::Bool(a) => Flat::Bool(row!(a)),
        NdarrayValue::String(a) => Flat::Str(row!(a)),
    }
}

fn nd_shape(v: &NdarrayValue) -> Vec<usize> {
    match v {
        NdarrayValue::F64(a) => a.shape().to_vec(),
        NdarrayValue::F32(a) => a.shape().to_vec(),
        NdarrayValue::I64(a) => a.shape().to_vec(),
        NdarrayValue::U64(a) => a.shape().to_vec(),
        NdarrayValue::Bool(a) => a.shape().to_vec(),
        NdarrayValue::String(a) => a.shape().to_vec(),
    }
}

impl Backend for NdarrayB {
    type Cfg = NdarrayConfig;
    type Env = ();
    const NAME: &'static str = "ndarray";
    const HAS_STORE_WARMUP: bool = false;
    fn make(_: &Case) -> Result<(NdarrayConfig, ()), String> {
        Ok((NdarrayConfig::new(), ()))
    }
    fn check(_: &(), fin: &Fin<NdarrayConfig>, _case: &Case, view: &View, out: &mut BOut) {
        let nc = view.recs.len();
        let total = (view.n_tune + view.n_draws) as usize;
        // the posterior map must hold exactly the declared draw variables
        let mut have: Vec<&String> = fin.draws.keys().collect();
        have.sort();
        let mut want: Vec<&String> = view.schema.draws.iter().map(|v| &v.name).collect();
        want.sort();
        want.dedup();
        let draws_keys_ok = have == want;
        if !draws_keys_ok {
            out.find(
                view.tag("draw_arrays_allocated_from_stats_schema"),
                format!("posterior arrays {:?} but the declared draw variables are {:?}", have.iter().take(6).collect::<Vec<_>>(), want),
            );
        }
        for (vars, map) in [(&view.schema.stats, &fin.stats), (&view.schema.draws, &fin.draws)] {
            if !draws_keys_ok && !vars.first().map(|v| v.is_stat).unwrap_or(true) {
                continue; // reported above
            }
            for g in name_groups(vars) {
                let var = g[g.len() - 1]; // a cell written twice keeps the last occurrence
                if SKIP.contains(&var.name.as_str()) {
                    continue;
                }
                let name = &var.name;
                let Some(arr) = map.get(name) else {
                    out.find(view.tag(&format!("missing_variable:{name}")), format!("no array {name}"));
                    continue;
                };
                out.arrays += 1;
                let want_shape: Vec<usize> = [nc, total].into_iter().chain(var.shape.iter().map(|&s| s as usize)).collect();
                if nd_shape(arr) != want_shape {
                    out.find(view.tag(&format!("shape_mismatch:{name}")), format!("{name}: shape {:?}, expected {want_shape:?}", nd_shape(arr)));
                    continue;
                }
                for c in 0..nc {
                    if view.failed[c] {
                        continue;
                    }
                    for i in 0..total {
                        let act = nd_row(arr, c, i);
                        let mut exp = Flat::new(var.ty);
                        let val = view.recs[c].get(i).and_then(|r| rec_value(r, var));
                        if let Some(v) = val {
                            if exp.push(v).is_err() {
                                continue;
                            }
                        }
                        if act.ty_name() != exp.ty_name() {
                            out.find(view.tag(&format!("type_mismatch:{name}")), format!("{name} is {} but declared {}", act.ty_name(), exp.ty_name()));
                            break;
                        }
                        out.values += act.len() as u64;
                        let bad = match val {
                            // absent (event statistic without event, or not recorded): default value
                            None => (0..act.len()).find(|&k| !act.is_fill(k, false)),
                            Some(_) => if exp.len() != act.len() { Some(0) } else { exp.first_diff(0, &act, 0, exp.len()) },
                        };
                        if let Some(k) = bad {
                            out.find(
                                view.tag(&format!("values_mismatch:{name}")),
                                format!("{name}[chain {c}, draw {i}, element {k}] = {} but recorded {}", act.show(k), if val.is_some() { exp.show(k) } else { "nothing".into() }),
                            );
                            break;
                        }
                    }
                }
            }
        }
    }
}

// ── Arrow ───────────────────────────────────────────────────────────────────

struct ArrowB;

fn arrow_type(ty: ItemType) -> DataType {
    match ty {
        ItemType::F64 => DataType::Float64,
        ItemType::F32 => DataType::Float32,
        ItemType::U64 => DataType::UInt64,
        ItemType::I64 => DataType::Int64,
        ItemType::Bool => DataType::Boolean,
        _ => DataType::Utf8,
    }
}

/// Raw value slots of a primitive / string / boolean Arrow array (null slots included).
fn arrow_values(a: &dyn ArrowArray, ty: ItemType) -> Result<Flat, String> {
    let any = a.as_any();
    let bad = || format!("array of type {:?} where {:?} was declared", a.data_type(), ty);
    Ok(match ty {
        ItemType::F64 => Flat::F64(any.downcast_ref::<Float64Array>().ok_or_else(bad)?.values().to_vec()),
        ItemType::F32 => Flat::F32(any.downcast_ref::<Float32Array>().ok_or_else(bad)?.values().to_vec()),
        ItemType::U64 => Flat::U64(any.downcast_ref::<UInt64Array>().ok_or_else(bad)?.values().to_vec()),
        ItemType::I64 => Flat::I64(any.downcast_ref::<Int64Array>().ok_or_else(bad)?.values().to_vec()),
        ItemType::Bool => {
            let b = any.downcast_ref::<BooleanArray>().ok_or_else(bad)?;
            Flat::Bool((0..b.len()).map(|i| b.value(i)).collect())
        }
        _ => {
            let s = any.downcast_ref::<StringArray>().ok_or_else(bad)?;
            Flat::Str((0..s.len()).map(|i| s.value(i).to_string()).collect())
        }
    })
}

fn check_arrow_batch(batch: &RecordBatch, vars: &[Var], c: usize, rows: &[&Rec], view: &View, out: &mut BOut, compact: &mut Compact) {
    let what = if vars.first().map(|v| v.is_stat).unwrap_or(false) { "sample_stats" } else { "posterior" };
    if batch.num_rows() != rows.len() {
        out.find(view.tag(&format!("row_count:{what}")), format!("chain {c}: {what} has {} rows, {} draws were recorded (store_warmup={})", batch.num_rows(), rows.len(), view.store_warmup));
        return;
    }
    if batch.num_columns() != vars.len() {
        out.find(view.tag(&format!("column_count:{what}")), format!("chain {c}: {} columns, {} declared", batch.num_columns(), vars.len()));
        return;
    }
    let schema = batch.schema();
    for var in vars {
        let field = schema.field(var.pos);
        let col = batch.column(var.pos);
        let name = &var.name;
        out.arrays += 1;
        if field.name() != name {
            out.find(view.tag(&format!("column_name:{name}")), format!("column {} is named {}", var.pos, field.name()));
            continue;
        }
        let tensor = !var.dims.is_empty();
        // declared type / shape metadata
        let type_ok = if tensor {
            matches!(field.data_type(), DataType::LargeList(f) if f.data_type() == &arrow_type(var.ty))
        } else {
            field.data_type() == &arrow_type(var.ty)
        };
        if !type_ok || col.data_type() != field.data_type() {
            out.find(view.tag(&format!("type_mismatch:{name}")), format!("{name}: field {:?} / column {:?}, declared {:?} dims {:?}", field.data_type(), col.data_type(), var.ty, var.dims));
            continue;
        }
        let md = field.metadata();
        if tensor {
            let want_shape = var.shape.iter().map(|s| s.to_string()).collect::<Vec<_>>().join(",");
            if md.get("dims") != Some(&var.dims.join(",")) || md.get("shape") != Some(&want_shape) {
                out.find(view.tag(&format!("shape_metadata:{name}")), format!("{name}: metadata {md:?}, declared dims {:?} shape {:?}", var.dims, var.shape));
            }
        }
        if md.get("event_dim") != var.event.as_ref() {
            out.find(view.tag(&format!("event_metadata:{name}")), format!("{name}: metadata {md:?}, declared event {:?}", var.event));
        }
        // values
        let (values, offsets): (Flat, Option<Vec<i64>>) = if tensor {
            let Some(list) = col.as_any().downcast_ref::<LargeListArray>() else { continue };
            match arrow_values(list.values().as_ref(), var.ty) {
                Ok(v) => (v, Some(list.value_offsets().to_vec())),
                Err(e) => {
                    out.find(view.tag(&format!("type_mismatch:{name}")), format!("{name}: {e}"));
                    continue;
                }
            }
        } else {
            match arrow_values(col.as_ref(), var.ty) {
                Ok(v) => (v, None),
                Err(e) => {
                    out.find(view.tag(&format!("type_mismatch:{name}")), format!("{name}: {e}"));
                    continue;
                }
            }
        };
        let mut comp = Flat::new(var.ty);
        let mut n_events = 0;
        for (r, rec) in rows.iter().enumerate() {
            let val = rec_value(rec, var);
            if col.is_null(r) != val.is_none() {
                let sig = if var.event.is_some() { format!("event_presence:{}", var.event.as_ref().unwrap()) } else { format!("null_mismatch:{name}") };
                out.find(view.tag(&sig), format!("chain {c} row {r}: {name} null={} but recorded present={}", col.is_null(r), val.is_some()));
                break;
            }
            let Some(val) = val else { continue };
            n_events += 1;
            let mut exp = Flat::new(var.ty);
            if exp.push(val).is_err() {
                continue;
            }
            let (start, len) = match &offsets {
                Some(o) => (o[r] as usize, (o[r + 1] - o[r]) as usize),
                None => (r, 1),
            };
            out.values += exp.len() as u64;
            if len != exp.len() || (tensor && len != var.width()) {
                out.find(view.tag(&format!("shape_mismatch:{name}")), format!("chain {c} row {r}: {name} has {len} elements, recorded {} (declared shape {:?})", exp.len(), var.shape));
                break;
            }
            if let Some(k) = exp.first_diff(0, &values, start, len) {
                out.find(view.tag(&format!("values_mismatch:{name}")), format!("chain {c} row {r} element {k}: {} but recorded {}", values.show(start + k), exp.show(k)));
                break;
            }
            comp.append(&values, start, len);
        }
        let _ = n_events;
        if var.occ == 0 && !vars.iter().any(|o| o.name == var.name && o.occ > 0) {
            compact.insert((c, var.is_stat, name.clone()), comp);
        }
    }
}

impl Backend for ArrowB {
    type Cfg = ArrowConfig;
    type Env = ();
    const NAME: &'static str = "arrow";
    const HAS_STORE_WARMUP: bool = true;
    fn make(case: &Case) -> Result<(ArrowConfig, ()), String> {
        let mut c = ArrowConfig::default();
        c.store_warmup = case.store_warmup;
        Ok((c, ()))
    }
    fn check(_: &(), fin: &Fin<ArrowConfig>, _case: &Case, view: &View, out: &mut BOut) {
        if fin.len() != view.recs.len() {
            out.find(view.tag("chain_count"), format!("{} chain results for {} chains", fin.len(), view.recs.len()));
            return;
        }
        let mut compact = Compact::new();
        for (c, tr) in fin.iter().enumerate() {
            if view.failed[c] {
                continue;
            }
            let rows: Vec<&Rec> = view.kept(c).collect();
            // warmup rows come before sampling rows
            if rows.windows(2).any(|w| !w[0].tuning && w[1].tuning) {
                continue;
            }
            check_arrow_batch(&tr.sample_stats, &view.schema.stats, c, &rows, view, out, &mut compact);
            check_arrow_batch(&tr.posterior, &view.schema.draws, c, &rows, view, out, &mut compact);
        }
        out.compact = Some(compact);
    }
}

// ── CSV ─────────────────────────────────────────────────────────────────────

struct CsvB;

/// Column names the CSV backend documents for a draw variable (Stan style, row-major).
fn csv_columns(var: &Var) -> Vec<String> {
    if var.dims.is_empty() {
        return vec![var.name.clone()];
    }
    let mut idx = vec![0u64; var.shape.len()];
    let mut out = vec![];
    for _ in 0..var.width() {
        out.push(format!("{}.{}", var.name, idx.iter().map(|i| (i + 1).to_string()).collect::<Vec<_>>().join(".")));
        for d in (0..idx.len()).rev() {
            idx[d] += 1;
            if idx[d] < var.shape[d] {
                break;
            }
            idx[d] = 0;
        }
    }
    out
}

/// Does the printed cell represent `x` to `prec` decimals?
fn csv_float_ok(cell: &str, x: f64, prec: usize) -> bool {
    if x.is_nan() {
        return cell == "NA";
    }
    if x.is_infinite() {
        return cell == if x > 0.0 { "Inf" } else { "-Inf" };
    }
    match cell.parse::<f64>() {
        Ok(p) => (p - x).abs() <= 0.5 * 10f64.powi(-(prec as i32)) * (1.0 + 1e-9) + x.abs() * 4.0 * f64::EPSILON,
        Err(_) => false,
    }
}

fn csv_cell_ok(cell: &str, val: &Flat, k: usize, prec: usize) -> bool {
    match val {
        Flat::F64(v) => csv_float_ok(cell, v[k], prec),
        Flat::F32(v) => csv_float_ok(cell, v[k] as f64, prec),
        Flat::I64(v) => cell == v[k].to_string(),
        Flat::U64(v) => cell == v[k].to_string(),
        Flat::Bool(v) => cell == if v[k] { "1" } else { "0" },
        Flat::Str(v) => cell == v[k],
    }
}

impl Backend for CsvB {
    type Cfg = CsvConfig;
    type Env = tempfile::TempDir;
    const NAME: &'static str = "csv";
    const HAS_STORE_WARMUP: bool = true;
    fn make(case: &Case) -> Result<(CsvConfig, tempfile::TempDir), String> {
        let dir = tempfile::tempdir().map_err(|e| e.to_string())?;
        let cfg = CsvConfig::new(dir.path().join("out")).with_precision(case.csv_precision).store_warmup(case.store_warmup);
        Ok((cfg, dir))
    }
    fn check(dir: &tempfile::TempDir, _fin: &(), case: &Case, view: &View, out: &mut BOut) {
        let prec = case.csv_precision;
        // the documented column subset: 7 sampler statistics + numeric draw variables
        let stat_cols = [("lp__", "logp"), ("accept_stat__", "mean_tree_accept"), ("stepsize__", "step_size"), ("treedepth__", "depth"), ("n_leapfrog__", "n_steps"), ("divergent__", "diverging"), ("energy__", "energy")];
        let mut header: Vec<String> = stat_cols.iter().map(|c| c.0.to_string()).collect();
        let mut params: Vec<(&Var, usize)> = vec![];
        for var in &view.schema.draws {
            if matches!(var.ty, ItemType::F64 | ItemType::F32 | ItemType::I64 | ItemType::U64) {
                for (k, n) in csv_columns(var).into_iter().enumerate() {
                    header.push(n);
                    params.push((var, k));
                }
            }
        }
        let mut compact = Compact::new();
        for c in 0..view.recs.len() {
            if view.failed[c] {
                continue;
            }
            let path = dir.path().join("out").join(format!("chain_{c}.csv"));
            let text = match std::fs::read_to_string(&path) {
                Ok(t) => t,
                Err(e) => {
                    out.find(view.tag("file_missing"), format!("{path:?}: {e}"));
                    continue;
                }
            };
            let rows: Vec<&Rec> = view.kept(c).collect();
            let lines: Vec<&str> = text.lines().collect();
            if !view.finalized {
                // inspect() of this backend returns nothing and does not flush its writer: only
                // note how much is visible, the property is judged on the finalized files
                out.notes.push(("csv_rows_recorded_before_inspect".into(), rows.len() as u64));
                out.notes.push(("csv_rows_on_disk_at_inspect".into(), lines.len().saturating_sub(1) as u64));
                continue;
            }
            out.arrays += 1;
            if rows.is_empty() {
                if !lines.is_empty() {
                    out.find("row_count".into(), format!("chain {c}: {} lines although no draw was to be stored", lines.len()));
                }
                continue;
            }
            if lines.len() != rows.len() + 1 {
                out.find("row_count".into(), format!("chain {c}: {} data lines, {} draws recorded (store_warmup={})", lines.len().saturating_sub(1), rows.len(), view.store_warmup));
                continue;
            }
            let head: Vec<&str> = lines[0].split(',').collect();
            if head != header.iter().map(|s| s.as_str()).collect::<Vec<_>>() {
                out.find("header".into(), format!("chain {c}: header {head:?}, expected {header:?}"));
                continue;
            }
            let mut cols: BTreeMap<String, Vec<f64>> = BTreeMap::new();
            'rows: for (r, rec) in rows.iter().enumerate() {
                let cells: Vec<&str> = lines[r + 1].split(',').collect();
                if cells.len() != header.len() {
                    out.find("cell_count".into(), format!("chain {c} row {r}: {} cells for {} columns", cells.len(), header.len()));
                    break;
                }
                for (k, (col, stat)) in stat_cols.iter().enumerate() {
                    let var = view.schema.stats.iter().find(|v| v.name == *stat);
                    let val = var.and_then(|v| rec_value(rec, v));
                    out.values += 1;
                    let ok = match (var, val) {
                        (None, _) | (_, None) => cells[k] == if *stat == "diverging" { "0" } else { "NA" },
                        (Some(v), Some(val)) => {
                            let mut f = Flat::new(v.ty);
                            f.push(val).is_ok() && csv_cell_ok(cells[k], &f, 0, prec)
                        }
                    };
                    if !ok {
                        out.find(format!("values_mismatch:{col}"), format!("chain {c} row {r}: {col} printed as {:?} but {stat} was recorded as {:?} (precision {prec})", cells[k], val));
                        break 'rows;
                    }
                }
                for (j, (var, k)) in params.iter().enumerate() {
                    let cell = cells[stat_cols.len() + j];
                    let Some(val) = rec_value(rec, var) else { continue };
                    let mut f = Flat::new(var.ty);
                    if f.push(val).is_err() {
                        continue;
                    }
                    out.values += 1;
                    if *k >= f.len() || !csv_cell_ok(cell, &f, *k, prec) {
                        out.find(format!("values_mismatch:{}", var.name), format!("chain {c} row {r}: column {} printed as {cell:?} but recorded {} (precision {prec})", header[stat_cols.len() + j], f.show(*k)));
                        break 'rows;
                    }
                    cols.entry(var.name.clone()).or_default().push(match cell {
                        "NA" => f64::NAN,
                        "Inf" => f64::INFINITY,
                        "-Inf" => f64::NEG_INFINITY,
                        s => s.parse().unwrap_or(f64::NAN),
                    });
                }
            }
            for (n, v) in cols {
                compact.insert((c, false, n), Flat::F64(v));
            }
        }
        if view.finalized {
            out.compact = Some(compact);
        }
    }
}

// ── Zarr ────────────────────────────────────────────────────────────────────

struct ZarrSyncB;
struct ZarrAsyncB;

fn zarr_check(store: &ZStore, case: &Case, view: &View, out: &mut BOut) {
    let snap = match store.snapshot() {
        Ok(s) => s,
        Err(e) => {
            out.notes.push((format!("inconclusive:zarr snapshot failed: {e}"), 1));
            return;
        }
    };
    let zv = ZView {
        schema: view.schema,
        recs: view.recs.iter().enumerate().map(|(c, r)| if view.failed[c] { &r[..0] } else { *r }).collect(),
        n_tune: view.n_tune,
        n_draws: view.n_draws,
        group: if case.group { "/grp" } else { "" },
        finalized: view.finalized,
        store_warmup: view.store_warmup,
    };
    if view.failed.iter().any(|f| *f) {
        return; // partially recorded chains cannot be compared
    }
    let mut zo = ZOut::default();
    check_zarr(&snap.store, &zv, &mut zo);
    out.arrays += zo.arrays;
    out.values += zo.values;
    for i in zo.issues {
        let no_sampling = view.recs[i.chain].iter().all(|r| r.tuning);
        let ev = i.event.clone().unwrap_or_default();
        let sig = match i.kind {
            ZKind::Open => format!("array_unreadable:{}", i.section),
            ZKind::Type => format!("type_mismatch:{}", i.name),
            ZKind::Shape => format!("shape_mismatch:{}", i.name),
            ZKind::DimNames => format!("dimension_names:{}", i.name),
            // MCLMC declares `tuning` twice: the per-name buffer receives two values per draw
            ZKind::Missing | ZKind::Wrong | ZKind::Garbage if view.schema.stats.iter().filter(|v| v.name == i.name).count() > 1 => {
                format!("duplicate_statistic_pushed_twice:{}", i.name)
            }
            ZKind::Missing | ZKind::Wrong | ZKind::Garbage => {
                if i.event.is_some() && no_sampling && view.finalized {
                    format!("warmup_events_lost_without_sampling_phase:{ev}")
                } else {
                    format!("values_mismatch:{}", i.name)
                }
            }
            ZKind::EvTruncated | ZKind::EvOversized if view.finalized && view.recs.iter().all(|r| r.iter().all(|x| x.tuning)) => {
                format!("warmup_events_lost_without_sampling_phase:{ev}")
            }
            ZKind::EvTruncated => format!("event_array_truncated:{ev}"),
            ZKind::EvOversized => format!("event_array_oversized:{ev}"),
            ZKind::WarmupStored => "store_warmup_false_ignored".to_string(),
        };
        if i.kind == ZKind::WarmupStored {
            out.find(sig, i.detail);
        } else {
            out.find(view.tag(&sig), i.detail);
        }
    }
    if view.finalized {
        out.compact = Some(zo.compact);
    }
}

impl Backend for ZarrSyncB {
    type Cfg = ZarrConfig;
    type Env = ZStore;
    const NAME: &'static str = "zarr_sync";
    const HAS_STORE_WARMUP: bool = true;
    const ZARR: bool = true;
    fn make(case: &Case) -> Result<(ZarrConfig, ZStore), String> {
        let st = ZStore::new(case.fs, Writer::Sync)?;
        let mut cfg = st.sync_config().with_chunk_size(case.chunk).store_warmup(case.store_warmup);
        if case.group {
            cfg = cfg.with_group_path("/grp");
        }
        Ok((cfg, st))
    }
    fn check(env: &ZStore, _: &(), case: &Case, view: &View, out: &mut BOut) {
        zarr_check(env, case, view, out)
    }
}

impl Backend for ZarrAsyncB {
    type Cfg = ZarrAsyncConfig;
    type Env = ZStore;
    const NAME: &'static str = "zarr_async";
    const HAS_STORE_WARMUP: bool = true;
    const ZARR: bool = true;
    fn make(case: &Case) -> Result<(ZarrAsyncConfig, ZStore), String> {
        let st = ZStore::new(case.fs, if case.async_object { Writer::AsyncObject } else { Writer::AsyncAdapter })?;
        let mut cfg = st.async_config().with_chunk_size(case.chunk).store_warmup(case.store_warmup);
        if case.group {
            cfg = cfg.with_group_path("/grp");
        }
        Ok((cfg, st))
    }
    fn check(env: &ZStore, _: &(), case: &Case, view: &View, out: &mut BOut) {
        zarr_check(env, case, view, out)
    }
}

// ── running a case ──────────────────────────────────────────────────────────

#[derive(Default)]
struct CaseOut {
    /// (backend, finding)
    findings: Vec<(String, Finding)>,
    values: u64,
    arrays: u64,
    compacts: Vec<(String, Compact)>,
    notes: Vec<(String, u64)>,
    inconclusive: Vec<String>,
}

impl CaseOut {
    fn absorb(&mut self, backend: &str, b: BOut) {
        for f in b.findings {
            self.findings.push((backend.to_string(), f));
        }
        self.values += b.values;
        self.arrays += b.arrays;
        self.notes.push((format!("values_compared_{backend}"), b.values));
        if b.compact.is_some() {
            self.notes.push((format!("finalized_traces_read_back_{backend}"), 1));
        }
        self.notes.extend(b.notes);
        if let Some(c) = b.compact {
            if !self.compacts.iter().any(|(n, _)| n == backend) {
                self.compacts.push((backend.to_string(), c));
            }
        }
    }
}

fn wanted<B: Backend>(case: &Case) -> bool {
    case.only.is_empty() || case.only.iter().any(|o| o == B::NAME)
}

fn error_findings(errors: &[(String, String, usize, usize)], streams: &[Vec<Rec>], out: &mut BOut) {
    for (phase, msg, c, i) in errors {
        // for a rejected record name the string-typed values it carried (the usual culprits)
        let mut hint = String::new();
        if phase == "record" {
            if let Some(r) = streams.get(*c).and_then(|s| s.get(*i)) {
                let strings: Vec<String> = r
                    .stats
                    .iter()
                    .chain(r.draws.iter())
                    .filter_map(|(n, v)| match v {
                        Some(Value::ScalarString(_)) => Some(format!("{n} (scalar string)")),
                        Some(Value::Strings(_)) => Some(format!("{n} (string vector)")),
                        _ => None,
                    })
                    .collect();
                hint = format!("; string values in this record: {strings:?}; draw variables: {:?}", r.draws.iter().map(|d| d.0.as_str()).collect::<Vec<_>>());
            }
        }
        out.find(classify(phase, msg), format!("{phase} failed for chain {c} at record {i}: {msg}{hint}"));
    }
}

fn selftest_perturb(streams: &[Vec<Rec>]) -> Option<Vec<Vec<Rec>>> {
    std::env::var("VERIF_SELFTEST_PERTURB").ok()?;
    let mut s = streams.to_vec();
    for recs in s.iter_mut() {
        if let Some(r) = recs.last_mut() {
            for (n, v) in r.stats.iter_mut().chain(r.draws.iter_mut()) {
                match v {
                    Some(Value::ScalarF64(x)) if n == "energy" || n == "logp" => *x = f64::from_bits(x.to_bits() ^ (1 << 40)),
                    Some(Value::F64(x)) if n == "value" && !x.is_empty() => x[0] = f64::from_bits(x[0].to_bits() ^ (1 << 40)),
                    _ => {}
                }
            }
        }
    }
    Some(s)
}

/// Replay the streams into backend `B` through the storage traits and check what comes back.
fn replay_backend<B: Backend, S: Settings, M: Math>(case: &Case, settings: &S, math: &M, schema: &FullSchema, streams: &[Vec<Rec>], out: &mut CaseOut) {
    if !wanted::<B>(case) {
        return;
    }
    // self-test knob of the monitor: compare against a stream in which one recorded value was
    // changed after the fact; every reader must then report a mismatch
    let perturbed = selftest_perturb(streams);
    let expect: &[Vec<Rec>] = perturbed.as_deref().unwrap_or(streams);
    let reps = if B::ZARR { case.zarr_reps.max(1) } else { 1 };
    for _rep in 0..reps {
        let (cfg, env) = match B::make(case) {
            Ok(x) => x,
            Err(e) => {
                out.inconclusive.push(format!("{}: could not set up the backend: {e}", B::NAME));
                return;
            }
        };
        let store_warmup = case.store_warmup || !B::HAS_STORE_WARMUP;
        let steps = lockstep(streams, &|_| false, case.inspect_at.map(|x| x as usize));
        let mut bout = BOut::default();
        let d = drive(cfg, settings, math, streams, &steps, |h| {
            if let Hook::Inspected { recorded, failed, result, .. } = h {
                let view = View {
                    schema,
                    recs: expect.iter().zip(recorded).map(|(s, n)| &s[..*n]).collect(),
                    failed,
                    n_tune: case.spec.num_tune,
                    n_draws: case.spec.num_draws,
                    finalized: false,
                    store_warmup,
                };
                B::check(&env, result, case, &view, &mut bout);
            }
        });
        error_findings(&d.errors, streams, &mut bout);
        if let Some(fin) = &d.finalized {
            let view = View {
                schema,
                recs: expect.iter().zip(&d.recorded).map(|(s, n)| &s[..*n]).collect(),
                failed: &d.failed,
                n_tune: case.spec.num_tune,
                n_draws: case.spec.num_draws,
                finalized: true,
                store_warmup,
            };
            B::check(&env, fin, case, &view, &mut bout);
        }
        out.absorb(B::NAME, bout);
    }
}

/// Run the parallel sampler with backend `B` and compare with the reference streams.
fn e2e_backend<B: Backend, S: Settings, Mo: Model>(case: &Case, settings: S, model: Mo, schema: &FullSchema, streams: &[Vec<Rec>], out: &mut CaseOut)
where
    Fin<B::Cfg>: Send + 'static,
{
    if !wanted::<B>(case) {
        return;
    }
    let (cfg, env) = match B::make(case) {
        Ok(x) => x,
        Err(e) => {
            out.inconclusive.push(format!("{}: could not set up the backend: {e}", B::NAME));
            return;
        }
    };
    let mut bout = BOut::default();
    let cores = case.spec.n_chains.clamp(1, 3);
    PANICS.lock().unwrap().clear();
    let res = guard(|| -> Result<Result<Fin<B::Cfg>, String>, String> {
        let mut sampler = Sampler::new(model, settings, cfg, cores, None).map_err(|e| format!("{e:#}"))?;
        for _ in 0..60 {
            match sampler.wait_timeout(Duration::from_secs(2)) {
                SamplerWaitResult::Trace(t) => return Ok(Ok(t)),
                SamplerWaitResult::Timeout(s) => sampler = s,
                SamplerWaitResult::Err(e, _) => return Ok(Err(format!("{e:#}"))),
            }
        }
        let _ = sampler.abort();
        Err("timeout".into())
    });
    let none_failed = vec![false; streams.len()];
    // a panic on a sampler thread is seen here only as a re-raised payload: take the message of
    // the first panic captured by the global hook (e2e cases run one at a time)
    let first_panic = PANICS.lock().unwrap().first().cloned();
    match res {
        Err(p) => {
            let msg = first_panic.unwrap_or(p);
            bout.find(classify_e2e(&msg), format!("sampling with this backend panicked: {msg}"))
        }
        Ok(Err(e)) => out.inconclusive.push(format!("{}: sampler did not finish: {e}", B::NAME)),
        Ok(Ok(Err(e))) => {
            let msg = match first_panic {
                Some(p) => format!("{p} ({e})"),
                None => e,
            };
            bout.find(classify_e2e(&msg), format!("sampling with this backend failed: {msg}"))
        }
        Ok(Ok(Ok(fin))) => {
            let view = View {
                schema,
                recs: streams.iter().map(|s| &s[..]).collect(),
                failed: &none_failed,
                n_tune: case.spec.num_tune,
                n_draws: case.spec.num_draws,
                finalized: true,
                store_warmup: case.store_warmup || !B::HAS_STORE_WARMUP,
            };
            B::check(&env, &fin, case, &view, &mut bout);
        }
    }
    out.absorb(B::NAME, bout);
}

/// Panic messages of all threads (the quiet hook of the harness only keeps them per thread).
static PANICS: std::sync::Mutex<Vec<String>> = std::sync::Mutex::new(Vec::new());

fn install_panic_capture() {
    let prev = std::panic::take_hook();
    std::panic::set_hook(Box::new(move |info| {
        let loc = info.location().map(|l| format!("{}:{}", l.file(), l.line())).unwrap_or_default();
        let msg = if let Some(s) = info.payload().downcast_ref::<&str>() {
            s.to_string()
        } else if let Some(s) = info.payload().downcast_ref::<String>() {
            s.clone()
        } else {
            "<non-string panic payload>".to_string()
        };
        if let Ok(mut p) = PANICS.lock() {
            if p.len() < 64 {
                p.push(format!("{msg} at {loc}"));
            }
        }
        prev(info);
    }));
}

/// Errors seen through the sampler get the signature of the storage call they come from.
fn classify_e2e(msg: &str) -> String {
    let phase = if msg.contains("when combining") {
        "finalize"
    } else if ["Unknown posterior variable", "Mismatched item type", "Unknown param name", "Missing draw value", "Vector assignment"].iter().any(|p| msg.contains(p)) {
        "record"
    } else {
        "sampler"
    };
    classify(phase, msg)
}

struct ReplayFn<'a> {
    case: &'a Case,
    streams: &'a [Vec<Rec>],
    out: &'a mut CaseOut,
}

impl SettingsFn for ReplayFn<'_> {
    type Out = ();
    fn call<S: Settings>(self, settings: S) {
        let (case, streams, out) = (self.case, self.streams, self.out);
        let math = multi_math(&case.spec.target(), case.spec.variant);
        let schema = match FullSchema::of(&settings, &math) {
            Ok(s) => s,
            Err(e) => {
                out.inconclusive.push(format!("schema: {e}"));
                return;
            }
        };
        if streams.iter().flatten().any(|r| !schema.matches(r)) {
            out.inconclusive.push("recorded names differ from the declared schema".into());
            return;
        }
        replay_backend::<HashMapB, _, _>(case, &settings, &math, &schema, streams, out);
        replay_backend::<NdarrayB, _, _>(case, &settings, &math, &schema, streams, out);
        replay_backend::<ArrowB, _, _>(case, &settings, &math, &schema, streams, out);
        replay_backend::<CsvB, _, _>(case, &settings, &math, &schema, streams, out);
        replay_backend::<ZarrSyncB, _, _>(case, &settings, &math, &schema, streams, out);
        replay_backend::<ZarrAsyncB, _, _>(case, &settings, &math, &schema, streams, out);
    }
}

struct E2eFn<'a> {
    case: &'a Case,
    out: &'a mut CaseOut,
    streams_out: &'a mut Vec<Vec<Rec>>,
}

impl SettingsFn for E2eFn<'_> {
    type Out = ();
    fn call<S: Settings>(self, settings: S) {
        let (case, out) = (self.case, self.out);
        let target = case.spec.target();
        macro_rules! all_backends {
            ($model:expr, $math:expr) => {{
                let streams = match reference_run(settings, $model, case.spec.n_chains) {
                    Ok(s) => s,
                    Err(e) => {
                        out.inconclusive.push(e);
                        return;
                    }
                };
                let schema = match FullSchema::of(&settings, &$math) {
                    Ok(s) => s,
                    Err(e) => {
                        out.inconclusive.push(format!("schema: {e}"));
                        return;
                    }
                };
                if streams.iter().flatten().any(|r| !schema.matches(r)) {
                    out.inconclusive.push("recorded names differ from the declared schema".into());
                    return;
                }
                e2e_backend::<HashMapB, _, _>(case, settings, $model, &schema, &streams, out);
                e2e_backend::<NdarrayB, _, _>(case, settings, $model, &schema, &streams, out);
                e2e_backend::<ArrowB, _, _>(case, settings, $model, &schema, &streams, out);
                e2e_backend::<CsvB, _, _>(case, settings, $model, &schema, &streams, out);
                e2e_backend::<ZarrSyncB, _, _>(case, settings, $model, &schema, &streams, out);
                e2e_backend::<ZarrAsyncB, _, _>(case, settings, $model, &schema, &streams, out);
                *self.streams_out = streams;
            }};
        }
        if case.model == "vmodel" {
            let math = nuts_rs::CpuMath::new(crate::dens::Logged::new(target.clone(), false));
            all_backends!(crate::dens::VModel::new(target.clone()), math);
        } else {
            let math = multi_math(&target, case.spec.variant);
            all_backends!(MultiModel { target: target.clone(), variant: case.spec.variant, delay_us: 0 }, math);
        }
    }
}

/// All backends that read back successfully must agree with each other.
fn cross_compare(case: &Case, out: &mut CaseOut) {
    if !case.store_warmup {
        return;
    }
    let prec = case.csv_precision;
    let mut found = vec![];
    for i in 0..out.compacts.len() {
        for j in i + 1..out.compacts.len() {
            let (na, a) = &out.compacts[i];
            let (nb, b) = &out.compacts[j];
            // a disagreement with a backend that already has findings of its own is explained
            if out.findings.iter().any(|(b, _)| b == na || b == nb) {
                continue;
            }
            for (key, fa) in a {
                let Some(fb) = b.get(key) else { continue };
                let (csv, other) = if na == "csv" { (Some(fa), fb) } else if nb == "csv" { (Some(fb), fa) } else { (None, fb) };
                let differ = match csv {
                    Some(Flat::F64(printed)) => {
                        // CSV agrees to its printed precision
                        printed.len() != other.len()
                            || (0..printed.len()).any(|k| {
                                let x = match other {
                                    Flat::F64(v) => v[k],
                                    Flat::F32(v) => v[k] as f64,
                                    Flat::I64(v) => v[k] as f64,
                                    Flat::U64(v) => v[k] as f64,
                                    _ => f64::NAN,
                                };
                                let p = printed[k];
                                !(p.to_bits() == x.to_bits() || (p.is_nan() && x.is_nan()) || (p - x).abs() <= 0.5 * 10f64.powi(-(prec as i32)) * (1.0 + 1e-9) + x.abs() * 1e-15)
                            })
                    }
                    _ => fa.len() != fb.len() || fa.first_diff(0, fb, 0, fa.len()).is_some(),
                };
                if differ {
                    found.push((
                        "cross".to_string(),
                        Finding {
                            sig: format!("{na}_vs_{nb}:values_differ:{}", key.2),
                            detail: format!("chain {} {} {}: {na} returns {} values, {nb} returns {}", key.0, if key.1 { "statistic" } else { "draw variable" }, key.2, fa.len(), fb.len()),
                        },
                    ));
                }
                out.values += fa.len() as u64;
            }
        }
    }
    // one finding per signature is enough
    found.sort_by(|a, b| a.1.sig.cmp(&b.1.sig));
    found.dedup_by(|a, b| a.1.sig == b.1.sig);
    out.findings.extend(found);
}

fn run_case(report: &mut Report, case: &Case, verbose: bool) {
    report.eval();
    let mut out = CaseOut::default();
    let streams: Vec<Vec<Rec>>;
    let j = case.spec.settings_json();
    if case.kind == "e2e" {
        let mut s = vec![];
        if let Err(e) = dispatch(case.spec.preset(), &j, E2eFn { case, out: &mut out, streams_out: &mut s }) {
            out.inconclusive.push(e);
        }
        streams = s;
    } else {
        streams = match gen_streams(&case.spec) {
            Ok(s) => s,
            Err(e) => {
                report.inconclusive(&format!("stream generation failed: {}", e.split(':').next().unwrap_or("")));
                if verbose {
                    eprintln!("stream generation failed: {e}");
                }
                return;
            }
        };
        if let Err(e) = dispatch(case.spec.preset(), &j, ReplayFn { case, streams: &streams, out: &mut out }) {
            out.inconclusive.push(e);
        }
    }
    cross_compare(case, &mut out);
    // what the stream contained
    let mut n_events: BTreeMap<&str, u64> = BTreeMap::new();
    let (mut n_warm, mut n_samp) = (0u64, 0u64);
    for r in streams.iter().flatten() {
        if r.tuning { n_warm += 1 } else { n_samp += 1 }
        if r.stats.iter().any(|(n, v)| n == "divergence_draw" && v.is_some()) {
            *n_events.entry("divergence").or_default() += 1;
        }
        if r.stats.iter().any(|(n, v)| n == "transformation_update_id" && v.is_some()) {
            *n_events.entry("transformation_update").or_default() += 1;
        }
    }
    let n_div = n_events.get("divergence").copied().unwrap_or(0);
    let n_upd = n_events.get("transformation_update").copied().unwrap_or(0);
    let mut h = Fnv::new();
    h.str(&case.kind).str(&case.spec.preset).str(&case.spec.target).u64(case.spec.variant as u64).u64(case.spec.num_tune).u64(case.spec.num_draws);
    h.u64(case.spec.n_chains as u64).u64((case.spec.n_records < case.spec.num_tune + case.spec.num_draws) as u64).u64(case.store_warmup as u64);
    h.u64(case.chunk).u64(n_div.min(2)).u64(n_upd.min(2)).u64(case.spec.special as u64).u64(case.fs as u64).u64(case.async_object as u64);
    if !streams.is_empty() {
        report.nontrivial(h.finish());
    }
    report.count("values_compared", out.values);
    report.count("arrays_read_back", out.arrays);
    report.count("records_in_streams", n_warm + n_samp);
    report.count("divergence_events_in_streams", n_div);
    report.count("transformation_update_events_in_streams", n_upd);
    for (k, v) in &out.notes {
        if let Some(reason) = k.strip_prefix("inconclusive:") {
            report.inconclusive(reason);
        } else {
            report.count(k, *v);
        }
    }
    for r in &out.inconclusive {
        report.inconclusive(r);
        if verbose {
            eprintln!("inconclusive: {r}");
        }
    }
    // one violation per (backend, signature) and case
    let mut seen: HashMap<String, u64> = HashMap::new();
    for (backend, f) in &out.findings {
        let sig = format!("C14:{backend}:{}", f.sig);
        let n = seen.entry(sig.clone()).or_default();
        *n += 1;
        if verbose {
            eprintln!("{sig}: {}", f.detail);
        }
        if *n == 1 {
            let mut replay = serde_json::to_value(case).unwrap();
            if backend != "cross" {
                replay["only"] = json!([backend]);
            }
            report.violation(sig, format!("{} [warmup records {n_warm}, sampling records {n_samp}, divergences {n_div}, transformation updates {n_upd}]", f.detail), replay);
        }
    }
    if report.samples.len() < 2 && n_div > 0 && !streams.is_empty() {
        let r = streams[0].iter().find(|r| r.diverging).or(streams[0].first());
        report.sample(json!({
            "case": serde_json::to_value(case).unwrap(),
            "backends_read_back": out.compacts.iter().map(|c| c.0.clone()).collect::<Vec<_>>(),
            "findings": seen.keys().collect::<Vec<_>>(),
            "example_record_stats": r.map(|r| r.stats.iter().map(|(n, v)| json!([n, v.as_ref().map(crate::chains::value_to_json)])).collect::<Vec<_>>()),
        }));
    }
    if verbose {
        eprintln!(
            "case done: {} chains, {n_warm} warmup + {n_samp} sampling records, {n_div} divergences, {n_upd} updates; backends read back: {:?}; values compared {}",
            streams.len(),
            out.compacts.iter().map(|c| c.0.as_str()).collect::<Vec<_>>(),
            out.values
        );
    }
}

fn gen_cases(report: &Report, seed: u64) -> Vec<Case> {
    let rng = HRng::new(seed ^ 0xC14);
    let thorough = report.thorough();
    let mut cases = vec![];
    let counts: &[u64] = &[0, 1, 2, 3, 7, 12, 25];
    let reps = report.size(26, 800);
    for (pi, preset) in ALL_PRESETS.iter().enumerate() {
        for rep in 0..reps {
            let mut r = rng.fork((pi as u64) << 32 | rep);
            let target = *r.choose(&["funnel", "funnel", "scaled", "iso"]);
            let num_tune = *r.choose(counts);
            let num_draws = *r.choose(counts);
            let total = num_tune + num_draws;
            // aborted runs: fewer records than announced
            let n_records = if total > 1 && r.bool(0.25) { r.below(total) } else { total };
            let variant = *r.choose(&[0u8, 0, 1, 1, 1, 3, 2]);
            let chunk = *r.choose(&[1u64, 2, 3, 5, 7, 100, total.max(2) - 1, total.max(1), total + 1]);
            let dim = if target == "funnel" { 2 + r.below(3) as usize } else if thorough && r.bool(0.05) { 0 } else { 1 + r.below(4) as usize };
            let dim = if !preset.is_nuts() { dim.max(2) } else { dim };
            cases.push(Case {
                kind: "replay".into(),
                spec: StreamSpec {
                    preset: preset.name().into(),
                    target: target.into(),
                    dim,
                    num_tune,
                    num_draws,
                    n_chains: 1 + r.below(4) as usize,
                    n_records,
                    seed: r.next_u64() >> 12,
                    variant,
                    store_divergences: r.bool(0.5),
                    store_extra: r.bool(0.3),
                    special: r.bool(0.4),
                },
                store_warmup: !r.bool(0.25),
                chunk: chunk.max(1),
                inspect_at: if r.bool(0.5) && n_records > 0 { Some(r.below(n_records + 1)) } else { None },
                group: r.bool(0.06),
                zarr_reps: 0,
                fs: r.bool(0.12),
                async_object: r.bool(0.4),
                csv_precision: *r.choose(&[6usize, 6, 2, 12, 0]),
                model: "multi".into(),
                only: vec![],
            });
            // the event-array length depends on HashMap iteration order: repeat Zarr runs
            let c = cases.last_mut().unwrap();
            c.zarr_reps = match (c.spec.target.as_str(), c.fs) {
                ("funnel", false) => 16,
                ("funnel", true) => 6,
                _ => 3,
            };
        }
    }
    // end to end through the parallel sampler
    let e2e_reps = report.size(2, 30);
    for (pi, preset) in ALL_PRESETS.iter().enumerate() {
        for rep in 0..e2e_reps {
            let mut r = rng.fork(0xE2E0000 | (pi as u64) << 8 | rep);
            let target = *r.choose(&["funnel", "scaled"]);
            let num_tune = *r.choose(&[0u64, 2, 7, 20]);
            let num_draws = *r.choose(&[1u64, 2, 7, 15]);
            let vmodel = rep % 2 == 1;
            cases.push(Case {
                kind: "e2e".into(),
                spec: StreamSpec {
                    preset: preset.name().into(),
                    target: target.into(),
                    dim: if target == "funnel" { 3 } else { 2 + r.below(3) as usize },
                    num_tune,
                    num_draws,
                    n_chains: 1 + r.below(3) as usize,
                    n_records: num_tune + num_draws,
                    seed: r.next_u64() >> 12,
                    variant: if vmodel { 0 } else { *r.choose(&[0u8, 1, 3]) },
                    store_divergences: r.bool(0.5),
                    store_extra: r.bool(0.3),
                    special: false,
                },
                store_warmup: !r.bool(0.25),
                chunk: *r.choose(&[1u64, 3, 7, 100]),
                inspect_at: None,
                group: false,
                zarr_reps: 1,
                fs: r.bool(0.3),
                async_object: r.bool(0.5),
                csv_precision: 6,
                model: if vmodel { "vmodel".into() } else { "multi".into() },
                only: vec![],
            });
        }
    }
    cases
}

pub fn run(args: &Args, report: &mut Report) {
    report.rule = "replay cases = 6 presets x random (target in {funnel with tight energy limit => divergence events, scaled, iso}; num_tune, num_draws in \
        {0,1,2,3,7,12,25}; 1-4 chains; 25% aborted runs; expanded vector variant {f64 vector | scalar+vector+matrix of f64,f32,i64,u64,bool,string | + string vector | none}; \
        40% with injected NaN/inf/-0/subnormal/huge integers/empty strings; store_warmup false in 25%; Zarr chunk size in {1,2,3,5,7,100,n-1,n,n+1}; memory / filesystem stores; \
        optional flush+inspect at a random draw), each replayed into all six backends through the storage traits (Zarr cases repeated 16x / 4x for the HashMap-order dependent \
        event bug); e2e cases = 6 presets run through the parallel Sampler with every backend and compared with the same run recorded by the recording backend; \
        distinct = (kind, preset, target, variant, num_tune, num_draws, chains, aborted, store_warmup, chunk, saw divergence, saw transformation update, special values, store kind)"
        .into();
    report.assumptions = vec![
        "the value stream is what Storable::get_all returned from real chains (harness chain wrapper) or what the recording backend received from the Sampler".into(),
        "chains are deterministic given the settings seed, so two Sampler runs see identical per-chain streams".into(),
        "readers: arrow-rs accessors, ndarray indexing, zarrs 0.23 (fresh Array::open on a snapshot of the store), own CSV parser".into(),
        "HashMap backend omitting the `draw` and `chain` statistics and CSV storing only 7 sampler statistics + numeric draw variables are documented subsets".into(),
        "CSV inspect() returns no result by design; CSV is judged on the finalized files only".into(),
    ];
    crate::sched::install();
    install_panic_capture();
    if let Some(r) = &args.replay {
        match serde_json::from_value::<Case>(r.clone()) {
            Ok(case) => run_case(report, &case, true),
            Err(e) => eprintln!("cannot parse replay case: {e}"),
        }
        return;
    }
    if args.mode.as_deref() == Some("probe") {
        probe();
        return;
    }
    let cases = gen_cases(report, args.seed);
    let (e2e, replay): (Vec<Case>, Vec<Case>) = cases.into_iter().partition(|c| c.kind == "e2e");
    crate::report::par_run(report, replay.len() as u64, |i, rep| run_case(rep, &replay[i as usize], false));
    // end-to-end cases one at a time (panic messages of sampler threads are captured globally)
    for c in &e2e {
        run_case(report, c, false);
    }
}

/// `--mode probe`: print schema and event counts of one stream per preset.
fn probe() {
    for preset in ALL_PRESETS {
        let spec = StreamSpec {
            preset: preset.name().into(),
            target: "funnel".into(),
            dim: 3,
            num_tune: 12,
            num_draws: 12,
            n_chains: 1,
            n_records: 24,
            seed: 5,
            variant: 1,
            store_divergences: true,
            store_extra: true,
            special: false,
        };
        let (_, skipped) = crate::chains::settings_json(preset, &[("num_chains", json!(1))]);
        eprintln!("== {} (skipped patches {skipped:?})", preset.name());
        match gen_streams(&spec) {
            Ok(s) => {
                let r = &s[0];
                eprintln!("  records {} tuning {} divergent {}", r.len(), r.iter().filter(|x| x.tuning).count(), r.iter().filter(|x| x.diverging).count());
                for (i, (n, _)) in r[0].stats.iter().enumerate() {
                    let present = r.iter().filter(|x| x.stats[i].1.is_some()).count();
                    eprintln!("  stat {n}: present {present}/{} e.g. {:?}", r.len(), r.iter().find_map(|x| x.stats[i].1.clone()).map(|v| format!("{v:?}").chars().take(60).collect::<String>()));
                }
            }
            Err(e) => eprintln!("  error {e}"),
        }
    }
}
