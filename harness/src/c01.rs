//! C01 — NUTS transition is reversible with respect to the target density.
//!
//! Black-box kernel extraction: the RNG is scripted, so for a start state z the exact transition
//! probabilities P(z -> k) over the trajectory indices k are obtained by enumerating every
//! direction sequence and every outcome of the selection draws, and by bisecting the threshold of
//! every selection draw on the scripted word. The extraction is repeated from every state of the
//! orbit segment and detailed balance is evaluated for all pairs with energies computed by the
//! harness.

use std::collections::BTreeMap;

use nuts_rs::KineticEnergyKind;
use nuts_rs::verif::NutsOptions;
use serde_json::{Value as J, json};

use crate::Args;
use crate::chains::SM;
use crate::dens::Target;
use crate::report::Report;
use crate::script::ReqKind;
use crate::tree::{HamDyn, Outcome, Setup, Transform, with_hamiltonian};
use crate::util::{Fnv, HRng, dot, mat_vec};

#[derive(Clone, Copy, Debug, PartialEq, Eq, PartialOrd, Ord)]
enum Stop {
    Turning,
    MaxDepth,
    Diverged,
}

#[derive(Clone, Debug)]
struct PathInfo {
    lo: i64,
    hi: i64,
    depth: u64,
    stop: Stop,
    /// probability of the direction sequence (1/2 per direction request)
    weight: f64,
    n_dirs: usize,
}

#[derive(Debug, Default)]
struct Extraction {
    /// relative index -> probability
    probs: BTreeMap<i64, f64>,
    paths: Vec<PathInfo>,
    runs: u64,
    min_rel_turn: f64,
    selection_draws: u64,
    thresholds_measured: u64,
}

struct Words {
    fwd: u64,
    bwd: u64,
}

fn final_interval(o: &Outcome) -> (i64, i64) {
    // blocks of 2^j leapfrogs for j < depth, each entirely on one side
    let (mut lo, mut hi) = (0i64, 0i64);
    let mut pos = 0usize;
    for j in 0..o.depth {
        let n = 1usize << j;
        if pos + n > o.steps.len() {
            break;
        }
        let first = o.steps[pos].parts.index_in_trajectory;
        if first > 0 { hi += n as i64 } else { lo -= n as i64 }
        pos += n;
    }
    (lo, hi)
}

fn stop_of(o: &Outcome) -> Stop {
    if o.diverged {
        Stop::Diverged
    } else if o.reached_maxdepth {
        Stop::MaxDepth
    } else {
        Stop::Turning
    }
}

/// Extract the transition kernel from the state (x, v).
fn extract(
    math: &mut SM,
    h: &mut dyn HamDyn,
    x: &[f64],
    v: &[f64],
    opts: &NutsOptions,
    words: &Words,
) -> Result<Extraction, String> {
    let maxdepth = opts.maxdepth;
    let mut ex = Extraction { min_rel_turn: f64::INFINITY, ..Default::default() };
    let mut total = 0.0;
    let mut run = |math: &mut SM, h: &mut dyn HamDyn, script: Vec<u64>, ex: &mut Extraction| -> Result<Outcome, String> {
        ex.runs += 1;
        let o = h.draw(math, x, v, script, opts, false)?;
        if o.min_rel_turn < ex.min_rel_turn {
            ex.min_rel_turn = o.min_rel_turn;
        }
        Ok(o)
    };
    for dmask in 0..(1u64 << maxdepth) {
        // discovery run: learn the request sequence for this direction mask
        let mut script: Vec<u64> = vec![];
        let mut kinds: Vec<ReqKind> = vec![];
        let last;
        loop {
            let o = run(math, h, script.clone(), &mut ex)?;
            if o.rng_log.len() <= script.len() {
                last = o;
                break;
            }
            let k = o.rng_log[script.len()].0;
            let ndir = kinds.iter().filter(|&&x| x == ReqKind::U32).count();
            let w = match k {
                ReqKind::U32 => {
                    if (dmask >> ndir) & 1 == 1 { words.fwd } else { words.bwd }
                }
                ReqKind::U64 => u64::MAX,
                ReqKind::Bytes => return Err("unexpected fill_bytes request inside nuts::draw".into()),
            };
            kinds.push(k);
            script.push(w);
            if script.len() > 4096 {
                return Err("request sequence does not terminate".into());
            }
        }
        let ndirs = kinds.iter().filter(|&&x| x == ReqKind::U32).count();
        if (ndirs as u64) < maxdepth && (dmask >> ndirs) != 0 {
            continue; // same prefix already enumerated
        }
        if last.diverged {
            return Err("divergence inside the explored trajectories".into());
        }
        let (lo, hi) = final_interval(&last);
        let wdir = 0.5f64.powi(ndirs as i32);
        ex.paths.push(PathInfo { lo, hi, depth: last.depth, stop: stop_of(&last), weight: wdir, n_dirs: ndirs });
        let bern: Vec<usize> = kinds.iter().enumerate().filter(|x| *x.1 == ReqKind::U64).map(|x| x.0).collect();
        let m = bern.len();
        ex.selection_draws += m as u64;
        if m > 16 {
            return Err(format!("{m} selection draws in one trajectory: outcome enumeration too large"));
        }
        // outcome map over {reject, accept}^m
        let mut outcome = vec![0i64; 1 << m];
        for b in 0..(1usize << m) {
            let mut s = script.clone();
            for (j, &pos) in bern.iter().enumerate() {
                s[pos] = if (b >> j) & 1 == 1 { 0 } else { u64::MAX };
            }
            let o = run(math, h, s, &mut ex)?;
            if o.rng_log.len() != script.len() || o.rng_log.iter().zip(&kinds).any(|(a, b)| a.0 != *b) {
                return Err("request sequence depends on the selection outcomes".into());
            }
            outcome[b] = o.returned.index_in_trajectory;
        }
        // thresholds by bisection in a context where the request is observable
        let mut p = vec![f64::NAN; m];
        for j in 0..m {
            let ctxs: Vec<usize> = (0..(1usize << m)).filter(|b| (b >> j) & 1 == 0 && outcome[*b] != outcome[b | (1 << j)]).collect();
            let Some(&ctx) = ctxs.first() else { continue };
            let measure = |ctx: usize, math: &mut SM, h: &mut dyn HamDyn, ex: &mut Extraction| -> Result<f64, String> {
                let accept_idx = outcome[ctx | (1 << j)];
                let (mut lo_w, mut hi_w) = (0u64, u64::MAX);
                while hi_w - lo_w > 1 {
                    let mid = lo_w + (hi_w - lo_w) / 2;
                    let mut s = script.clone();
                    for (jj, &pos) in bern.iter().enumerate() {
                        s[pos] = if (ctx >> jj) & 1 == 1 { 0 } else { u64::MAX };
                    }
                    s[bern[j]] = mid;
                    let o = run(math, h, s, ex)?;
                    if o.returned.index_in_trajectory == accept_idx { lo_w = mid } else { hi_w = mid }
                }
                Ok(hi_w as f64 / 2f64.powi(64))
            };
            p[j] = measure(ctx, math, h, &mut ex)?;
            ex.thresholds_measured += 1;
            // the threshold must not depend on the other answers: re-measure in another context
            if let Some(&ctx2) = ctxs.last() {
                if ctx2 != ctx {
                    let p2 = measure(ctx2, math, h, &mut ex)?;
                    if (p2 - p[j]).abs() > 1e-15 {
                        return Err("selection threshold depends on other selection outcomes".into());
                    }
                }
            }
        }
        for b in 0..(1usize << m) {
            let mut pr = wdir;
            let mut ok = true;
            for j in 0..m {
                if p[j].is_nan() {
                    if (b >> j) & 1 == 1 {
                        ok = false
                    }
                    continue;
                }
                pr *= if (b >> j) & 1 == 1 { p[j] } else { 1.0 - p[j] };
            }
            if !ok {
                continue;
            }
            *ex.probs.entry(outcome[b]).or_default() += pr;
            total += pr;
        }
    }
    if (total - 1.0).abs() > 1e-9 {
        return Err(format!("extracted kernel sums to {total}"));
    }
    Ok(ex)
}

#[derive(Clone, Debug)]
struct Config {
    setup: Setup,
    momentum: Vec<f64>,
    maxdepth: u64,
    seed: u64,
    idx: u64,
}

fn gen_config(seed: u64, idx: u64, maxdepth: u64) -> Config {
    let mut rng = HRng::new(seed).fork(idx);
    // mostly small; one configuration in six is wide enough for the unrolled vector loops of the kernels
    let d = if (idx / 10) % 6 == 5 { *rng.choose(&[16usize, 20, 33]) } else { 1 + rng.below(6) as usize };
    let kind = if idx % 2 == 0 { KineticEnergyKind::Euclidean } else { KineticEnergyKind::ExactNormal };
    let target = match (idx / 2) % 5 {
        0 => Target::iso(d, 0.2),
        1 => Target::scaled(&mut rng, d, 10.0),
        2 => Target::correlated(&mut rng, d, 8.0),
        3 => {
            if d >= 2 { Target::Banana { b: 0.4, dim: d } } else { Target::Logistic { dim: d } }
        }
        _ => Target::Logistic { dim: d },
    };
    let lowrank = rng.bool(0.5);
    // transformation of moderate scale (1e-2..1e2 on some coordinates for diagonals)
    let transform = match Transform::random(&mut rng, d, lowrank) {
        Transform::Diag { mean, .. } => Transform::Diag {
            stds: (0..d).map(|_| if rng.bool(0.2) { rng.log_range(1e-2, 1e2) } else { rng.log_range(0.3, 3.0) }).collect(),
            mean,
        },
        Transform::LowRank { mean, vecs, mu_inner, vals, .. } => Transform::LowRank {
            stds: (0..d).map(|_| rng.log_range(0.3, 3.0)).collect(),
            mean,
            vals: vals.iter().map(|_| rng.log_range(0.2, 5.0)).collect(),
            vecs,
            mu_inner,
        },
    };
    let (f, c) = transform.dense();
    // start: image of a moderately sized whitened point, so that step sizes are comparable
    let y0: Vec<f64> = rng.normal_vec(d).iter().map(|v| 0.8 * v).collect();
    let start: Vec<f64> = mat_vec(&f, &y0).iter().zip(&c).map(|(a, b)| a + b).collect();
    let momentum = rng.normal_vec(d);
    // the energy error of a step grows with the dimension: keep the wide configurations inside the quantifier
    // (no divergence, moderate energy spread over the explored segment)
    let step_size = if d >= 16 { rng.log_range(0.15, 1.0) } else { rng.log_range(0.01, 1.5) };
    Config { setup: Setup { target, transform, kind, step_size, start }, momentum, maxdepth, seed, idx }
}

fn energy(t: &Target, x: &[f64], v: &[f64]) -> f64 {
    let mut g = vec![0.0; x.len()];
    0.5 * dot(v, v) - t.eval(x, &mut g)
}

fn run_config(report: &mut Report, cfg: &Config, verbose: bool) {
    report.eval();
    let setup = &cfg.setup;
    let kname = setup.kind_name();
    let tname = setup.transform.name();
    let replay = json!({"seed": cfg.seed, "idx": cfg.idx, "maxdepth": cfg.maxdepth});
    let sig = |what: &str| format!("C01:{kname}:{tname}:{what}");
    let opts = NutsOptions { maxdepth: cfg.maxdepth, ..Default::default() };
    let span = (1i64 << cfg.maxdepth) - 1;
    let res: Result<(), String> = with_hamiltonian(setup, &mut |math, h| {
        // the orbit through z0, twice the span in both directions (needed by the extractions from the ends)
        let mut orbit: BTreeMap<i64, (Vec<f64>, Vec<f64>)> = BTreeMap::new();
        orbit.insert(0, (setup.start.clone(), cfg.momentum.clone()));
        for forward in [true, false] {
            let (mut x, mut v) = (setup.start.clone(), cfg.momentum.clone());
            for i in 1..=(2 * span) {
                match h.leapfrog(math, &x, &v, forward, 1e300)? {
                    (_, Some(e)) => {
                        x = e.position;
                        v = e.velocity;
                        orbit.insert(if forward { i } else { -i }, (x.clone(), v.clone()));
                    }
                    _ => return Err("orbit step failed".into()),
                }
            }
        }
        let energies: BTreeMap<i64, f64> = orbit.iter().map(|(k, (x, v))| (*k, energy(&setup.target, x, v))).collect();
        let h0 = energies[&0];
        if energies.values().any(|e| !e.is_finite() || (e - h0).abs() > 50.0) {
            return Err("energy spread too large for a divergence-free comparison".into());
        }
        // direction words: which scripted words mean forward / backward, and their measure
        let mut n_fwd = 0u64;
        let mut words = Words { fwd: 0, bwd: 0 };
        let (mut have_f, mut have_b) = (false, false);
        let n_words = 1024u64;
        let opts1 = NutsOptions { maxdepth: 1, ..Default::default() };
        for i in 0..n_words {
            // stratified over the upper 32 bits (the part a u32 request sees)
            let w = ((i << 22) | (i.wrapping_mul(0x9E3779B97F4A7C15) >> 42)) << 32 | (i.wrapping_mul(0xD1B54A32D192ED03) >> 32);
            let o = h.draw(math, &setup.start, &cfg.momentum, vec![w, u64::MAX], &opts1, false)?;
            let Some(first) = o.steps.first() else { return Err("no leapfrog at maxdepth 1".into()) };
            if first.parts.index_in_trajectory > 0 {
                n_fwd += 1;
                if !have_f {
                    words.fwd = w;
                    have_f = true
                }
            } else if !have_b {
                words.bwd = w;
                have_b = true
            }
        }
        report.count("direction_words_tried", n_words);
        let frac = n_fwd as f64 / n_words as f64;
        // if the direction is a threshold function of the word, measure the threshold exactly
        {
            let is_fwd = |w: u64, math: &mut SM, h: &mut dyn HamDyn| -> Result<bool, String> {
                let o = h.draw(math, &setup.start, &cfg.momentum, vec![w, u64::MAX], &opts1, false)?;
                Ok(o.steps.first().map(|s| s.parts.index_in_trajectory > 0).unwrap_or(false))
            };
            let lo_f = is_fwd(0, math, h)?;
            let hi_f = is_fwd(u64::MAX, math, h)?;
            if lo_f != hi_f {
                let (mut lo_w, mut hi_w) = (0u64, u64::MAX);
                while hi_w - lo_w > 1 {
                    let mid = lo_w + (hi_w - lo_w) / 2;
                    if is_fwd(mid, math, h)? == lo_f { lo_w = mid } else { hi_w = mid }
                }
                // consistent with a single threshold only if the stratified sample agrees with it
                let thr = hi_w as f64 / 2f64.powi(64);
                let p_fwd = if lo_f { thr } else { 1.0 - thr };
                if (p_fwd - frac).abs() < 0.02 && (p_fwd - 0.5).abs() > 1e-9 {
                    report.violation(sig("direction_not_fair"), format!("forward direction has probability {p_fwd} (threshold word {hi_w:#x})"), replay.clone());
                }
                report.count("direction_thresholds_bisected", 1);
            }
        }
        if (frac - 0.5).abs() > 0.02 {
            report.violation(sig("direction_not_fair"), format!("{n_fwd} of {n_words} stratified words give the forward direction"), replay.clone());
        }
        if !have_f || !have_b {
            return Err("could not find words for both directions".into());
        }
        // kernel extraction from every state of the segment
        let mut kernels: BTreeMap<i64, Extraction> = BTreeMap::new();
        let mut min_turn = f64::INFINITY;
        for a in -span..=span {
            let (x, v) = orbit[&a].clone();
            let ex = extract(math, h, &x, &v, &opts, &words)?;
            min_turn = min_turn.min(ex.min_rel_turn);
            report.count("scripted_executions", ex.runs);
            report.count("selection_draws_seen", ex.selection_draws);
            report.count("thresholds_bisected", ex.thresholds_measured);
            kernels.insert(a, ex);
        }
        report.count("kernels_extracted", kernels.len() as u64);
        if min_turn < 1e-7 {
            return Err("a U-turn product is within 1e-7 (relative) of zero: decisions may differ by rounding".into());
        }
        // (a) mirrored trajectories: same absolute interval => same depth / stop reason / weight
        let k0 = &kernels[&0];
        for (a, ka) in &kernels {
            if *a == 0 {
                continue;
            }
            let summarise = |k: &Extraction, shift: i64, other: i64| -> BTreeMap<(i64, i64), (f64, Vec<(u64, Stop)>)> {
                let mut m: BTreeMap<(i64, i64), (f64, Vec<(u64, Stop)>)> = BTreeMap::new();
                for p in &k.paths {
                    let (lo, hi) = (p.lo + shift, p.hi + shift);
                    if lo <= other && other <= hi {
                        let e = m.entry((lo, hi)).or_insert((0.0, vec![]));
                        e.0 += p.weight;
                        e.1.push((p.depth, p.stop));
                        e.1.sort();
                    }
                }
                m
            };
            let from0 = summarise(k0, 0, *a);
            let froma = summarise(ka, *a, 0);
            if from0.len() != froma.len()
                || from0.iter().zip(froma.iter()).any(|(x, y)| x.0 != y.0 || (x.1.0 - y.1.0).abs() > 1e-12 || x.1.1 != y.1.1)
            {
                report.violation(
                    sig("mirrored_trajectory_differs"),
                    format!("trajectories containing states 0 and {a}: from z0 {:?} vs from z{a} {:?}", from0, froma),
                    replay.clone(),
                );
            }
        }
        // (b) detailed balance over all ordered pairs
        let mut pairs = 0u64;
        let mut worst: f64 = 0.0;
        for (a, ka) in &kernels {
            for (b, kb) in &kernels {
                if b <= a || (b - a) > span {
                    continue;
                }
                let pab = ka.probs.get(&(b - a)).copied().unwrap_or(0.0);
                let pba = kb.probs.get(&(a - b)).copied().unwrap_or(0.0);
                let wa = (-(energies[a] - h0)).exp() * pab;
                let wb = (-(energies[b] - h0)).exp() * pba;
                pairs += 1;
                let scale = wa.max(wb);
                if scale == 0.0 {
                    continue;
                }
                // every selection probability exp(log w_new - log w_old) carries an absolute rounding error of a few
                // ulp of 1 (and a 2^-64 quantisation of the compared word); a probability such as 1 - exp(..) close
                // to zero inherits it, and the weights pi(.) amplify it
                let quant = 64.0 * f64::EPSILON * ((-(energies[a] - h0)).exp() + (-(energies[b] - h0)).exp());
                let rel = ((wa - wb).abs() - quant).max(0.0) / scale;
                worst = worst.max(rel);
                if rel > 1e-7 {
                    report.violation(
                        sig("detailed_balance"),
                        format!(
                            "states {a},{b}: pi(a)P(a->b)={wa:e} pi(b)P(b->a)={wb:e} (P_ab={pab:e} P_ba={pba:e}, H_a-H_0={:e}, H_b-H_0={:e}) step {} maxdepth {}",
                            energies[a] - h0,
                            energies[b] - h0,
                            setup.step_size,
                            cfg.maxdepth
                        ),
                        replay.clone(),
                    );
                }
            }
        }
        report.count("state_pairs_checked", pairs);
        if setup.start.len() >= 16 {
            report.count("wide_configurations_checked", 1);
            report.count("wide_u_turn_stops", k0.paths.iter().filter(|p| p.stop == Stop::Turning).count() as u64);
        }
        let depths: Vec<u64> = k0.paths.iter().map(|p| p.depth).collect();
        let mut hsh = Fnv::new();
        hsh.str(kname).str(tname).u64(setup.start.len() as u64).str(setup.target.name()).u64(*depths.iter().max().unwrap_or(&0));
        hsh.u64(k0.paths.iter().filter(|p| p.stop == Stop::Turning).count().min(3) as u64);
        report.nontrivial(hsh.finish());
        if verbose {
            eprintln!("worst relative detailed-balance defect {worst:e}; kernel from z0 {:?}; paths {:?}", k0.probs, k0.paths);
        }
        if report.samples.len() < 2 {
            report.sample(json!({"config": replay, "setup": setup.to_json(), "momentum": cfg.momentum,
                "kernel_from_z0": k0.probs.iter().map(|(k, v)| json!([k, v])).collect::<Vec<_>>(),
                "paths_from_z0": k0.paths.iter().map(|p| json!({"lo": p.lo, "hi": p.hi, "depth": p.depth, "stop": format!("{:?}", p.stop), "weight": p.weight})).collect::<Vec<_>>(),
                "worst_relative_defect": worst}));
        }
        Ok(())
    });
    if let Err(e) = res {
        // harness-level reasons: degenerate or divergent configuration, outside the property's quantifier
        let key = if e.contains("U-turn product") {
            "degenerate U-turn decision"
        } else if e.contains("divergence") || e.contains("energy spread") || e.contains("orbit step") {
            "divergence or large energy spread in the explored segment"
        } else {
            ""
        };
        if key.is_empty() {
            report.violation(sig("extraction_failed"), e, replay);
        } else {
            report.inconclusive(key);
        }
    }
}

pub fn run(args: &Args, report: &mut Report) {
    report.rule = "configurations = random (density family, dim 1..6 and 16..33, diagonal / low-rank transformation, kinetic kind, start, momentum, \
        step size 0.01..1.5) x maxdepth; for each, the exact kernel P(z_a -> .) is extracted from every state a of the orbit segment by \
        enumerating all direction sequences and all outcomes of the selection draws and bisecting every selection threshold; distinct = \
        (kind, transformation, dim, family, depth reached, number of U-turn stops)".into();
    report.assumptions.push("energies pi(z) are computed by the harness from its own density evaluation and the recorded velocity".into());
    report.assumptions.push("configurations with a U-turn product within 1e-7 (relative) of zero or an energy spread above 50 are counted as inconclusive".into());
    if let Some(r) = &args.replay {
        let cfg = gen_config(r["seed"].as_u64().unwrap(), r["idx"].as_u64().unwrap(), r["maxdepth"].as_u64().unwrap());
        run_config(report, &cfg, true);
        return;
    }
    let seed = args.seed ^ 0xC01;
    let n3 = report.size(160, 3000);
    let n2 = report.size(160, 1500);
    let n4 = report.size(0, 160);
    crate::report::par_run(report, n2 + n3 + n4, |i, rep| {
        let maxdepth = if i < n2 { 2 } else if i < n2 + n3 { 3 } else { 4 };
        run_config(rep, &gen_config(seed, i, maxdepth), false);
    });
}
