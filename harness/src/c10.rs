//! C10 — parallel sampling is deterministic and independent of scheduling.

use std::collections::{BTreeMap, HashMap, HashSet};
use std::time::Duration;

use serde_json::{Value as J, json};

use crate::Args;
use crate::chains::{ALL_PRESETS, Preset};
use crate::dens::Target;
use crate::par::{self, Cmd, Final, RunSpec, Watched};
use crate::report::Report;
use crate::sched;
use crate::util::{Fnv, HRng};

#[derive(Clone, Debug)]
struct Base {
    preset: Preset,
    num_tune: u64,
    num_draws: u64,
    num_chains: u64,
    seed: u64,
    dim: usize,
    target: &'static str,
    idx: u64,
    /// model variants: Model::math consumes its RNG / all chains start from the same point
    math_uses_rng: bool,
    same_start: bool,
}

fn gen_base(seed: u64, idx: u64) -> Base {
    let mut rng = HRng::new(seed).fork(idx);
    let preset = ALL_PRESETS[(idx % 6) as usize];
    if idx % 45 == 30 {
        // one very wide model: vector kernels that split their work above a size threshold must not make the result
        // depend on the number of worker threads
        return Base {
            preset: Preset::DiagNuts,
            num_tune: 3,
            num_draws: 3,
            num_chains: 2,
            seed: rng.next_u64(),
            dim: 20_000 + rng.below(5000) as usize,
            target: "iso",
            idx,
            math_uses_rng: false,
            same_start: false,
        };
    }
    Base {
        preset,
        num_tune: rng.int_range(0, 25) as u64,
        num_draws: rng.int_range(1, 25) as u64,
        num_chains: rng.int_range(1, 8) as u64,
        seed: rng.next_u64(),
        dim: rng.int_range(2, 5) as usize,
        target: *rng.choose(&["iso", "scaled", "funnel"]),
        idx,
        math_uses_rng: (idx / 6) % 3 == 1,
        same_start: (idx / 6) % 3 == 2,
    }
}

fn target_of(b: &Base) -> Target {
    let mut rng = HRng::new(b.seed ^ 0x7A);
    match b.target {
        "iso" => Target::iso(b.dim, 0.2),
        "scaled" => Target::scaled(&mut rng, b.dim, 30.0),
        _ => Target::Funnel { k: b.dim - 1 },
    }
}

fn spec_of(b: &Base, num_chains: u64, cores: usize) -> RunSpec {
    let settings = par::small_settings(b.preset, b.num_tune, b.num_draws, num_chains, b.seed, &[]);
    let mut s = RunSpec::new(b.preset, settings, target_of(b), cores);
    s.model_faults.math_uses_rng = b.math_uses_rng;
    s.model_faults.same_start_for_all_chains = b.same_start;
    s
}

fn storm(rng: &mut HRng, n: usize) -> Vec<Cmd> {
    let mut v = vec![];
    let mut paused = false;
    for _ in 0..n {
        match rng.below(8) {
            0 => {
                v.push(Cmd::Pause);
                paused = true
            }
            1 | 2 => {
                v.push(Cmd::Resume);
                paused = false
            }
            3 => v.push(Cmd::Progress),
            4 => v.push(Cmd::Flush),
            5 => v.push(Cmd::Inspect),
            6 => v.push(Cmd::SleepUs(rng.below(300))),
            _ => v.push(Cmd::Wait(rng.below(3))),
        }
    }
    if paused {
        v.push(Cmd::Resume);
    }
    v
}

fn base_json(b: &Base) -> J {
    json!({"preset": b.preset.name(), "num_tune": b.num_tune, "num_draws": b.num_draws, "num_chains": b.num_chains, "seed": b.seed, "dim": b.dim, "target": b.target, "idx": b.idx,
        "math_uses_rng": b.math_uses_rng, "same_start": b.same_start})
}

fn variant_json(v: &RunSpec, num_chains: u64) -> J {
    json!({"cores": v.cores, "num_chains": num_chains, "sched_seed": v.sched_seed, "yield_permille": v.yield_permille, "sleep_permille": v.sleep_permille,
        "delays": v.delays.iter().map(|(k, d)| json!([k, d])).collect::<Vec<_>>(), "script": v.script.iter().map(|c| c.to_json()).collect::<Vec<_>>()})
}

/// Returns false when the process should stop running further cases (a stalled run leaked threads).
fn run_base(report: &mut Report, b: &Base, n_variants: usize, vseed: u64) -> bool {
    report.eval();
    let pname = b.preset.name();
    let sig = |what: &str| format!("C10:{pname}:{what}");
    let watchdog = Duration::from_secs(120);
    // reference run: one core, no perturbation, no commands
    let ref_spec = spec_of(b, b.num_chains, 1);
    let reference = match par::run_watched(&ref_spec, watchdog) {
        Watched::Done(l) => l,
        Watched::Stalled { cpu_idle } => {
            report.inconclusive(if cpu_idle { "reference run stalled with an idle process" } else { "reference run exceeded the watchdog" });
            return false;
        }
    };
    let expected = (b.num_tune + b.num_draws) as usize;
    match &reference.fin {
        Final::Trace(_) => {}
        other => {
            report.violation(sig("reference_run_failed"), format!("uninterrupted single-core run ended with {other:?}").chars().take(300).collect::<String>(), base_json(b));
            return true;
        }
    }
    let ref_hash = par::hashes(&reference.records);
    if ref_hash.len() != b.num_chains as usize || ref_hash.values().any(|v| v.len() != expected) {
        report.violation(sig("reference_run_incomplete"), format!("chains {:?} (expected {} chains x {expected} draws)", ref_hash.iter().map(|(c, v)| (*c, v.len())).collect::<Vec<_>>(), b.num_chains), base_json(b));
        return true;
    }
    // different chains use different random streams
    let mut firsts: HashSet<Vec<u64>> = HashSet::new();
    for (c, v) in &reference.records {
        // compare the positions only (the chain id statistic differs trivially)
        let key: Vec<u64> = v.iter().flat_map(|r| r.draws.iter().filter_map(|(_, v)| match v {
            Some(nuts_rs::Value::F64(x)) => Some(crate::util::hash_f64s(x)),
            _ => None,
        })).collect();
        // chains that start from one common point may legitimately coincide while neither has moved (a rejected or
        // divergent first trajectory): the comparison needs a few distinct positions
        let mut distinct = key.clone();
        distinct.sort_unstable();
        distinct.dedup();
        if b.same_start && distinct.len() < 3 {
            continue;
        }
        if !firsts.insert(key) && b.dim > 0 {
            report.violation(sig("two_chains_with_identical_draws"), format!("chain {c} repeats the draws of another chain"), base_json(b));
        }
    }
    let mut rng = HRng::new(vseed).fork(b.idx);
    let mut signatures: HashSet<u64> = HashSet::new();
    for vi in 0..n_variants {
        report.eval();
        // variation: cores, number of other chains, perturbation, command storm, per-chain delays
        let cores = *rng.choose(&[1usize, 2, 3, 16]);
        let num_chains = if rng.bool(0.3) { rng.int_range(1, 8) as u64 } else { b.num_chains };
        let mut v = spec_of(b, num_chains, cores);
        v.sched_seed = rng.next_u64();
        v.yield_permille = *rng.choose(&[0u32, 200, 600]);
        v.sleep_permille = *rng.choose(&[0u32, 50, 200]);
        v.max_sleep_us = *rng.choose(&[50u64, 300, 1500]);
        v.log_events = true;
        if rng.bool(0.5) {
            for c in 0..num_chains {
                if rng.bool(0.4) {
                    v.delays.insert(c as i64, rng.below(40));
                }
            }
        }
        if rng.bool(0.6) {
            let n_cmds = 1 + rng.below(25) as usize;
            v.script = storm(&mut rng, n_cmds);
        }
        let replay = json!({"base": base_json(b), "variant": variant_json(&v, num_chains)});
        let log = match par::run_watched(&v, watchdog) {
            Watched::Done(l) => l,
            Watched::Stalled { cpu_idle } => {
                // liveness belongs to C11; here a stalled run is inconclusive and ends this process' work
                report.inconclusive(if cpu_idle { "variant run stalled with an idle process" } else { "variant run exceeded the watchdog" });
                return false;
            }
        };
        signatures.insert(sched::signature(&log.events));
        report.count("schedule_events_logged", log.events.len() as u64);
        match &log.fin {
            Final::Trace(_) => {}
            Final::ClientPanic(p) => {
                report.violation(sig("client_call_panicked"), p.clone(), replay.clone());
                continue;
            }
            other => {
                report.violation(sig("variant_run_failed"), format!("run ended with {other:?}").chars().take(400).collect::<String>(), replay.clone());
                continue;
            }
        }
        let got = par::hashes(&log.records);
        let common = num_chains.min(b.num_chains);
        for c in 0..common {
            let (a, bb) = (ref_hash.get(&c), got.get(&c));
            match (a, bb) {
                (Some(a), Some(bb)) => {
                    if a != bb {
                        let first = a.iter().zip(bb.iter()).position(|(x, y)| x != y).unwrap_or(a.len().min(bb.len()));
                        let what = if num_chains != b.num_chains { "chain_depends_on_number_of_chains" } else if a.len() != bb.len() { "chain_length_differs" } else { "chain_depends_on_schedule" };
                        report.violation(
                            sig(what),
                            format!("chain {c}: recorded trace differs from the single-core reference at draw {first} (lengths {} vs {}); variant cores {cores}, chains {num_chains}", a.len(), bb.len()),
                            replay.clone(),
                        );
                        break;
                    }
                    report.count("chain_traces_compared", 1);
                }
                _ => {
                    report.violation(sig("chain_missing"), format!("chain {c} has no records"), replay.clone());
                }
            }
        }
        if vi == 0 && report.samples.len() < 3 {
            report.sample(json!({"base": base_json(b), "variant": variant_json(&v, num_chains), "schedule_events": log.events.len(),
                "per_chain_hash_of_first_record": got.iter().map(|(c, v)| json!([c, v.first()])).collect::<Vec<_>>()}));
        }
    }
    report.count("distinct_interleaving_signatures", signatures.len() as u64);
    let mut h = Fnv::new();
    h.str(pname).u64(b.num_chains).u64(b.num_tune.min(1)).str(b.target).u64(b.math_uses_rng as u64).u64(b.same_start as u64);
    report.nontrivial(h.finish());
    for s in signatures {
        report.nontrivial(s);
    }
    true
}

pub fn run(args: &Args, report: &mut Report) {
    report.rule = "base configurations = preset x random (num_tune 0..25, num_draws 1..25, num_chains 1..8, seed, dim, target); each is run once \
        on one core without interference (reference) and then under variants: num_cores in {1,2,3,16}, a different number of chains, seeded \
        yields / sleeps at the schedule points, per-chain density delays and random pause / resume / progress / flush / inspect / wait storms; \
        per-chain traces (every statistic and draw value, hashed bitwise) must equal the reference; distinct = base configuration classes and \
        distinct interleaving signatures (hash of the (role, schedule point) sequence)".into();
    report.assumptions.push("runs are executed one at a time inside the process because the schedule controller is process global".into());
    report.assumptions.push("a sequential replay through Settings::new_chain is not used as an oracle (it would encode today's seeding scheme)".into());
    sched::install();
    let seed = args.seed ^ 0xC10;
    if let Some(r) = &args.replay {
        let idx = r["base"]["idx"].as_u64().unwrap();
        run_base(report, &gen_base(seed, idx), 12, seed ^ 0x55);
        return;
    }
    let n_bases = report.size(90, 2000);
    let n_variants = report.size(8, 12) as usize;
    for i in 0..n_bases {
        if !run_base(report, &gen_base(seed, i), n_variants, seed ^ 0x55) {
            report.inconclusive("remaining cases not run after a stalled run");
            break;
        }
    }
}
