//! Density library with known moments, a logging / fault-injecting `CpuLogpFunc` wrapper, a
//! harness supplied diagonal affine flow (for the Flow presets) and a `Model` for the parallel
//! sampler.

use std::collections::{BTreeMap, HashMap};
use std::sync::{Arc, Mutex};

use nuts_rs::{CpuLogpFunc, CpuMath, CpuMathError, HasDims, LogpError, Model};
use thiserror::Error;

use crate::util::{HRng, Mat, lu_inverse, mat_vec};

// ── targets ─────────────────────────────────────────────────────────────────

#[derive(Clone, Debug)]
pub enum Target {
    /// Independent normal coordinates N(mu_i, sigma_i^2)
    Diag { mu: Vec<f64>, sigma: Vec<f64> },
    /// Correlated Gaussian with precision matrix `prec` (cov kept for the moments)
    Dense { mu: Vec<f64>, prec: Mat, cov: Mat },
    /// Product of Student-t(nu) with location/scale
    StudentT { nu: f64, mu: Vec<f64>, sigma: Vec<f64> },
    /// Product of Gumbel(mu, beta) (skewed)
    Gumbel { mu: Vec<f64>, beta: Vec<f64> },
    /// Neal's funnel: v ~ N(0, 3^2), x_i ~ N(0, exp(v))  (dimension 1 + k)
    Funnel { k: usize },
    /// Banana: x0 ~ N(0, 1), x1 ~ N(b x0^2, 1), rest N(0,1)
    Banana { b: f64, dim: usize },
    /// Product of logistic distributions
    Logistic { dim: usize },
    /// Zero dimensional model
    Empty,
}

impl Target {
    pub fn dim(&self) -> usize {
        match self {
            Target::Diag { mu, .. } => mu.len(),
            Target::Dense { mu, .. } => mu.len(),
            Target::StudentT { mu, .. } => mu.len(),
            Target::Gumbel { mu, .. } => mu.len(),
            Target::Funnel { k } => k + 1,
            Target::Banana { dim, .. } => *dim,
            Target::Logistic { dim } => *dim,
            Target::Empty => 0,
        }
    }

    pub fn name(&self) -> &'static str {
        match self {
            Target::Diag { .. } => "diag_gauss",
            Target::Dense { .. } => "dense_gauss",
            Target::StudentT { .. } => "student_t",
            Target::Gumbel { .. } => "gumbel",
            Target::Funnel { .. } => "funnel",
            Target::Banana { .. } => "banana",
            Target::Logistic { .. } => "logistic",
            Target::Empty => "empty",
        }
    }

    pub fn is_gaussian(&self) -> bool {
        matches!(self, Target::Diag { .. } | Target::Dense { .. })
    }

    /// log density (unnormalised) and gradient.
    pub fn eval(&self, x: &[f64], g: &mut [f64]) -> f64 {
        match self {
            Target::Diag { mu, sigma } => {
                let mut lp = 0.0;
                for i in 0..x.len() {
                    let z = (x[i] - mu[i]) / sigma[i];
                    lp -= 0.5 * z * z;
                    g[i] = -z / sigma[i];
                }
                lp
            }
            Target::Dense { mu, prec, .. } => {
                let n = x.len();
                let d: Vec<f64> = (0..n).map(|i| x[i] - mu[i]).collect();
                let pd = mat_vec(prec, &d);
                let mut lp = 0.0;
                for i in 0..n {
                    g[i] = -pd[i];
                    lp -= 0.5 * d[i] * pd[i];
                }
                lp
            }
            Target::StudentT { nu, mu, sigma } => {
                let mut lp = 0.0;
                for i in 0..x.len() {
                    let z = (x[i] - mu[i]) / sigma[i];
                    lp -= 0.5 * (nu + 1.0) * (z * z / nu).ln_1p();
                    g[i] = -(nu + 1.0) * z / (nu + z * z) / sigma[i];
                }
                lp
            }
            Target::Gumbel { mu, beta } => {
                let mut lp = 0.0;
                for i in 0..x.len() {
                    let z = (x[i] - mu[i]) / beta[i];
                    let e = (-z).exp();
                    lp += -z - e;
                    g[i] = (-1.0 + e) / beta[i];
                }
                lp
            }
            Target::Funnel { k } => {
                let v = x[0];
                let mut lp = -0.5 * v * v / 9.0;
                g[0] = -v / 9.0;
                let ev = (-v).exp();
                for i in 1..=*k {
                    lp += -0.5 * x[i] * x[i] * ev - 0.5 * v;
                    g[i] = -x[i] * ev;
                    g[0] += 0.5 * x[i] * x[i] * ev - 0.5;
                }
                lp
            }
            Target::Banana { b, .. } => {
                let mut lp = -0.5 * x[0] * x[0];
                g[0] = -x[0];
                if x.len() > 1 {
                    let r = x[1] - b * x[0] * x[0];
                    lp -= 0.5 * r * r;
                    g[1] = -r;
                    g[0] += r * 2.0 * b * x[0];
                    for i in 2..x.len() {
                        lp -= 0.5 * x[i] * x[i];
                        g[i] = -x[i];
                    }
                }
                lp
            }
            Target::Logistic { .. } => {
                let mut lp = 0.0;
                for i in 0..x.len() {
                    // log f = -x - 2 log(1 + e^-x)
                    let z = x[i];
                    let sp = if z > 0.0 { (-z).exp().ln_1p() } else { -z + z.exp().ln_1p() };
                    lp += -z - 2.0 * sp;
                    let s = 1.0 / (1.0 + (-z).exp());
                    g[i] = -1.0 + 2.0 * (1.0 - s);
                }
                lp
            }
            Target::Empty => 0.0,
        }
    }

    /// (mean, variance) per coordinate when known in closed form.
    pub fn moments(&self) -> Option<(Vec<f64>, Vec<f64>)> {
        match self {
            Target::Diag { mu, sigma } => Some((mu.clone(), sigma.iter().map(|s| s * s).collect())),
            Target::Dense { mu, cov, .. } => {
                Some((mu.clone(), (0..mu.len()).map(|i| cov[i][i]).collect()))
            }
            Target::StudentT { nu, mu, sigma } if *nu > 4.0 => Some((
                mu.clone(),
                sigma.iter().map(|s| s * s * nu / (nu - 2.0)).collect(),
            )),
            Target::Gumbel { mu, beta } => {
                const EULER: f64 = 0.577_215_664_901_532_9;
                let pi2_6 = std::f64::consts::PI.powi(2) / 6.0;
                Some((
                    mu.iter().zip(beta).map(|(m, b)| m + b * EULER).collect(),
                    beta.iter().map(|b| b * b * pi2_6).collect(),
                ))
            }
            Target::Logistic { dim } => Some((
                vec![0.0; *dim],
                vec![std::f64::consts::PI.powi(2) / 3.0; *dim],
            )),
            _ => None,
        }
    }

    /// Marginal CDF of coordinate i, when known.
    pub fn cdf(&self, i: usize, x: f64) -> Option<f64> {
        match self {
            Target::Diag { mu, sigma } => Some(crate::util::phi((x - mu[i]) / sigma[i])),
            Target::Dense { mu, cov, .. } => Some(crate::util::phi((x - mu[i]) / cov[i][i].sqrt())),
            Target::Gumbel { mu, beta } => Some((-(-(x - mu[i]) / beta[i]).exp()).exp()),
            Target::Logistic { .. } => Some(1.0 / (1.0 + (-x).exp())),
            _ => None,
        }
    }

    /// Marginal quantile of coordinate i, when known in closed form.
    pub fn quantile(&self, i: usize, p: f64) -> Option<f64> {
        match self {
            Target::Gumbel { mu, beta } => Some(mu[i] - beta[i] * (-(p.ln())).ln()),
            Target::Logistic { .. } => Some((p / (1.0 - p)).ln()),
            Target::Diag { .. } | Target::Dense { .. } => {
                // invert phi by bisection
                let (m, s) = match self {
                    Target::Diag { mu, sigma } => (mu[i], sigma[i]),
                    Target::Dense { mu, cov, .. } => (mu[i], cov[i][i].sqrt()),
                    _ => unreachable!(),
                };
                let (mut lo, mut hi) = (-40.0, 40.0);
                for _ in 0..200 {
                    let mid = 0.5 * (lo + hi);
                    if crate::util::phi(mid) < p { lo = mid } else { hi = mid }
                }
                Some(m + s * 0.5 * (lo + hi))
            }
            _ => None,
        }
    }

    // constructors ---------------------------------------------------------

    pub fn iso(dim: usize, mu: f64) -> Target {
        Target::Diag { mu: vec![mu; dim], sigma: vec![1.0; dim] }
    }

    /// Log-uniformly scaled diagonal Gaussian with the given condition number (of variances^1/2).
    pub fn scaled(rng: &mut HRng, dim: usize, cond: f64) -> Target {
        let mut sigma: Vec<f64> = (0..dim).map(|_| rng.log_range(1.0, cond.max(1.0 + 1e-9))).collect();
        if dim >= 2 {
            sigma[0] = 1.0;
            sigma[dim - 1] = cond;
        }
        let s0 = cond.sqrt();
        for s in sigma.iter_mut() {
            *s /= s0;
        }
        let mu = (0..dim).map(|_| rng.range(-3.0, 3.0)).collect();
        Target::Diag { mu, sigma }
    }

    /// Random correlated Gaussian: cov = Q diag(l) Q^T
    pub fn correlated(rng: &mut HRng, dim: usize, cond: f64) -> Target {
        let q = crate::util::random_orthonormal(rng, dim, dim);
        let l: Vec<f64> = (0..dim)
            .map(|i| {
                if dim == 1 {
                    1.0
                } else if i == 0 {
                    1.0 / cond.sqrt()
                } else if i == dim - 1 {
                    cond.sqrt()
                } else {
                    rng.log_range(1.0 / cond.sqrt(), cond.sqrt())
                }
            })
            .collect();
        let mut cov = crate::util::mat_zeros(dim, dim);
        let mut prec = crate::util::mat_zeros(dim, dim);
        for k in 0..dim {
            for i in 0..dim {
                for j in 0..dim {
                    cov[i][j] += q[k][i] * q[k][j] * l[k];
                    prec[i][j] += q[k][i] * q[k][j] / l[k];
                }
            }
        }
        let mu = (0..dim).map(|_| rng.range(-2.0, 2.0)).collect();
        Target::Dense { mu, prec, cov }
    }

    /// Correlated Gaussian (condition number `cond` of the correlation part) with unequal coordinate scales:
    /// covariance D C D with D log-uniform over `scale_range` (neither a diagonal nor an equal-scale target).
    pub fn scaled_correlated(rng: &mut HRng, dim: usize, cond: f64, scale_range: f64) -> Target {
        let Target::Dense { mu, mut prec, mut cov } = Target::correlated(rng, dim, cond) else { unreachable!() };
        let s: Vec<f64> = (0..dim).map(|_| rng.log_range(1.0 / scale_range.sqrt(), scale_range.sqrt())).collect();
        for i in 0..dim {
            for j in 0..dim {
                cov[i][j] *= s[i] * s[j];
                prec[i][j] /= s[i] * s[j];
            }
        }
        let mu = mu.iter().zip(&s).map(|(m, s)| m * s).collect();
        Target::Dense { mu, prec, cov }
    }

    /// AR(1) Gaussian with correlation rho.
    pub fn ar1(dim: usize, rho: f64) -> Target {
        let mut cov = crate::util::mat_zeros(dim, dim);
        for i in 0..dim {
            for j in 0..dim {
                cov[i][j] = rho.powi((i as i32 - j as i32).abs());
            }
        }
        let (_, _, prec) = lu_inverse(&cov).expect("ar1 covariance is invertible");
        Target::Dense { mu: vec![0.0; dim], prec, cov }
    }

    pub fn from_cov(mu: Vec<f64>, cov: Mat) -> Target {
        let (_, _, prec) = lu_inverse(&cov).expect("covariance must be invertible");
        Target::Dense { mu, prec, cov }
    }
}

// ── faults ──────────────────────────────────────────────────────────────────

#[derive(Clone, Copy, Debug, PartialEq, Eq, PartialOrd, Ord)]
pub enum Fault {
    Recoverable,
    Fatal,
    NanLogp,
    PosInfLogp,
    NegInfLogp,
    NanGrad,
    InfGrad,
}

pub const ALL_FAULTS: [Fault; 7] = [
    Fault::Recoverable,
    Fault::Fatal,
    Fault::NanLogp,
    Fault::PosInfLogp,
    Fault::NegInfLogp,
    Fault::NanGrad,
    Fault::InfGrad,
];

impl Fault {
    pub fn name(&self) -> &'static str {
        match self {
            Fault::Recoverable => "recoverable_error",
            Fault::Fatal => "unrecoverable_error",
            Fault::NanLogp => "nan_logp",
            Fault::PosInfLogp => "posinf_logp",
            Fault::NegInfLogp => "neginf_logp",
            Fault::NanGrad => "nan_gradient",
            Fault::InfGrad => "inf_gradient",
        }
    }
}

#[derive(Debug, Error)]
pub enum DensErr {
    #[error("injected recoverable density error")]
    Recoverable,
    #[error("injected unrecoverable density error")]
    Fatal,
}

impl LogpError for DensErr {
    fn is_recoverable(&self) -> bool {
        matches!(self, DensErr::Recoverable)
    }
}

#[derive(Clone, Debug)]
pub struct EvalRecord {
    pub k: u64,
    pub position: Vec<f64>,
    pub logp: f64,
    pub gradient: Vec<f64>,
    pub fault: Option<Fault>,
}

#[derive(Default, Debug)]
pub struct EvalLog {
    pub count: u64,
    pub records: Vec<EvalRecord>,
    pub keep_records: bool,
    /// fault plan: evaluation index -> fault
    pub plan: BTreeMap<u64, Fault>,
    /// per-evaluation artificial delay (microseconds), for chains of different speed
    pub delay_us: u64,
}

pub type SharedLog = Arc<Mutex<EvalLog>>;

pub fn new_log(keep_records: bool) -> SharedLog {
    Arc::new(Mutex::new(EvalLog { keep_records, ..Default::default() }))
}

// ── affine flow (harness supplied normalizing flow for the Flow presets) ─────

#[derive(Clone, Debug)]
pub struct AffineFlow {
    pub scale: Vec<f64>,
    pub shift: Vec<f64>,
    pub id: i64,
    pub updates: u64,
}

// ── the logged density ──────────────────────────────────────────────────────

#[derive(Clone)]
pub struct Logged {
    pub target: Arc<Target>,
    pub log: SharedLog,
    /// When false, `update_transformation` keeps the flow fixed (id unchanged).
    pub flow_adapts: bool,
    /// The target is evaluated at `x - shift` in every coordinate (0 unless the model drew it from its RNG).
    pub shift: f64,
}

impl Logged {
    pub fn new(target: Target, keep_records: bool) -> Self {
        Logged { target: Arc::new(target), log: new_log(keep_records), flow_adapts: true, shift: 0.0 }
    }

    pub fn with_log(target: Arc<Target>, log: SharedLog) -> Self {
        Logged { target, log, flow_adapts: true, shift: 0.0 }
    }

    pub fn evals(&self) -> u64 {
        self.log.lock().unwrap().count
    }

    fn eval_logged(&mut self, x: &[f64], g: &mut [f64]) -> Result<f64, DensErr> {
        let (k, fault, delay) = {
            let mut log = self.log.lock().unwrap();
            let k = log.count;
            log.count += 1;
            (k, log.plan.get(&k).copied(), log.delay_us)
        };
        if delay > 0 {
            std::thread::sleep(std::time::Duration::from_micros(delay));
        }
        let mut lp = if self.shift == 0.0 {
            self.target.eval(x, g)
        } else {
            let xs: Vec<f64> = x.iter().map(|v| v - self.shift).collect();
            self.target.eval(&xs, g)
        };
        let mut result = Ok(());
        match fault {
            None => {}
            Some(Fault::Recoverable) => result = Err(DensErr::Recoverable),
            Some(Fault::Fatal) => result = Err(DensErr::Fatal),
            Some(Fault::NanLogp) => lp = f64::NAN,
            Some(Fault::PosInfLogp) => lp = f64::INFINITY,
            Some(Fault::NegInfLogp) => lp = f64::NEG_INFINITY,
            Some(Fault::NanGrad) => {
                if !g.is_empty() {
                    g[(k as usize) % g.len()] = f64::NAN
                }
            }
            Some(Fault::InfGrad) => {
                if !g.is_empty() {
                    g[(k as usize) % g.len()] = f64::INFINITY
                }
            }
        }
        {
            let mut log = self.log.lock().unwrap();
            if log.keep_records {
                log.records.push(EvalRecord {
                    k,
                    position: x.to_vec(),
                    logp: lp,
                    gradient: g.to_vec(),
                    fault,
                });
            }
        }
        result.map(|_| lp)
    }
}

impl HasDims for Logged {
    fn dim_sizes(&self) -> HashMap<String, u64> {
        let d = self.target.dim() as u64;
        HashMap::from([("unconstrained_parameter".to_string(), d), ("dim".to_string(), d)])
    }
}

impl CpuLogpFunc for Logged {
    type LogpError = DensErr;
    type FlowParameters = AffineFlow;
    type ExpandedVector = Vec<f64>;

    fn dim(&self) -> usize {
        self.target.dim()
    }

    fn logp(&mut self, position: &[f64], gradient: &mut [f64]) -> Result<f64, DensErr> {
        self.eval_logged(position, gradient)
    }

    fn expand_vector<R: rand::Rng + ?Sized>(
        &mut self,
        _rng: &mut R,
        array: &[f64],
    ) -> Result<Vec<f64>, CpuMathError> {
        Ok(array.to_vec())
    }

    fn inv_transform_normalize(
        &mut self,
        params: &AffineFlow,
        x: &[f64],
        g: &[f64],
        y: &mut [f64],
        gy: &mut [f64],
    ) -> Result<f64, DensErr> {
        let mut logdet = 0.0;
        for i in 0..x.len() {
            y[i] = (x[i] - params.shift[i]) / params.scale[i];
            gy[i] = g[i] * params.scale[i];
            logdet -= params.scale[i].ln();
        }
        Ok(logdet)
    }

    fn init_from_untransformed_position(
        &mut self,
        params: &AffineFlow,
        x: &[f64],
        g: &mut [f64],
        y: &mut [f64],
        gy: &mut [f64],
    ) -> Result<(f64, f64), DensErr> {
        let lp = self.eval_logged(x, g)?;
        let mut logdet = 0.0;
        for i in 0..x.len() {
            y[i] = (x[i] - params.shift[i]) / params.scale[i];
            gy[i] = g[i] * params.scale[i];
            logdet -= params.scale[i].ln();
        }
        Ok((lp, logdet))
    }

    fn init_from_transformed_position(
        &mut self,
        params: &AffineFlow,
        x: &mut [f64],
        g: &mut [f64],
        y: &[f64],
        gy: &mut [f64],
    ) -> Result<(f64, f64), DensErr> {
        for i in 0..y.len() {
            x[i] = y[i] * params.scale[i] + params.shift[i];
        }
        let lp = self.eval_logged(x, g)?;
        let mut logdet = 0.0;
        for i in 0..y.len() {
            gy[i] = g[i] * params.scale[i];
            logdet -= params.scale[i].ln();
        }
        Ok((lp, logdet))
    }

    fn update_transformation<'a, R: rand::Rng + ?Sized>(
        &'a mut self,
        _rng: &mut R,
        positions: impl ExactSizeIterator<Item = &'a [f64]>,
        _gradients: impl ExactSizeIterator<Item = &'a [f64]>,
        _logp: impl ExactSizeIterator<Item = &'a f64>,
        params: &'a mut AffineFlow,
    ) -> Result<(), DensErr> {
        params.updates += 1;
        if !self.flow_adapts {
            return Ok(());
        }
        let pts: Vec<&[f64]> = positions.collect();
        if pts.len() < 3 {
            return Ok(());
        }
        let d = params.scale.len();
        let n = pts.len() as f64;
        let mut changed = false;
        for i in 0..d {
            let m = pts.iter().map(|p| p[i]).sum::<f64>() / n;
            let v = pts.iter().map(|p| (p[i] - m) * (p[i] - m)).sum::<f64>() / (n - 1.0);
            if v.is_finite() && v > 1e-12 && m.is_finite() {
                params.scale[i] = v.sqrt();
                params.shift[i] = m;
                changed = true;
            }
        }
        if changed {
            params.id += 1;
        }
        Ok(())
    }

    fn init_transformation<R: rand::Rng + ?Sized>(
        &mut self,
        _rng: &mut R,
        _position: &[f64],
        _gradient: &[f64],
        _chain: u64,
    ) -> Result<AffineFlow, DensErr> {
        let d = self.target.dim();
        Ok(AffineFlow { scale: vec![1.0; d], shift: vec![0.0; d], id: 1, updates: 0 })
    }

    fn new_transformation<R: rand::Rng + ?Sized>(
        &mut self,
        _rng: &mut R,
        dim: usize,
        _chain: u64,
    ) -> Result<AffineFlow, DensErr> {
        Ok(AffineFlow { scale: vec![1.0; dim], shift: vec![0.0; dim], id: 0, updates: 0 })
    }

    fn transformation_id(&self, params: &AffineFlow) -> Result<i64, DensErr> {
        Ok(params.id)
    }
}

// ── model for the parallel sampler ──────────────────────────────────────────

/// What the model does when asked for a math object / an initial position.
/// Chains are identified by the thread-local set at the CHAIN_START schedule point
/// (-1 = the controller's schema-only call).
#[derive(Clone, Debug, Default)]
pub struct ModelFaults {
    /// `Model::math` fails when called for these chains (-1: controller)
    pub math_fail_chains: Vec<i64>,
    /// `Model::init_position` fails for these chains
    pub init_fail_chains: Vec<i64>,
    /// Every initial position is NaN for these chains (all 500 initialisation attempts fail)
    pub init_invalid_chains: Vec<i64>,
    /// The first k initial positions of a chain are NaN, later ones are valid: (chain, k)
    pub init_invalid_first: Vec<(i64, u64)>,
    /// not faults, model variants: `Model::math` consumes its RNG (location shift of the density per chain) /
    /// every chain starts from the same point (initial positions = 0)
    pub math_uses_rng: bool,
    pub same_start_for_all_chains: bool,
}

pub struct VModel {
    pub target: Arc<Target>,
    /// evaluation log per chain (-1: controller); shared so that the runner can read it after the model moved
    pub logs: Arc<Mutex<HashMap<i64, SharedLog>>>,
    pub keep_records: bool,
    pub faults: ModelFaults,
    /// fault plans per chain
    pub plans: HashMap<i64, BTreeMap<u64, Fault>>,
    /// per chain delay in microseconds per density evaluation
    pub delays: HashMap<i64, u64>,
    pub init_scale: f64,
    pub init_calls: Mutex<HashMap<i64, u64>>,
    /// `Model::math` draws a location shift of the density from the RNG it is given (a model whose density depends
    /// on per-chain randomness, e.g. random features or a data subsample)
    pub math_uses_rng: bool,
}

impl VModel {
    pub fn new(target: Target) -> Self {
        VModel {
            target: Arc::new(target),
            logs: Arc::new(Mutex::new(HashMap::new())),
            keep_records: false,
            faults: ModelFaults::default(),
            plans: HashMap::new(),
            delays: HashMap::new(),
            init_scale: 1.0,
            init_calls: Mutex::new(HashMap::new()),
            math_uses_rng: false,
        }
    }
}

impl Model for VModel {
    type Math<'m> = CpuMath<Logged>;

    fn math<R: rand::Rng + ?Sized>(&self, rng: &mut R) -> anyhow::Result<CpuMath<Logged>> {
        let chain = crate::sched::current_chain();
        if self.faults.math_fail_chains.contains(&chain) {
            anyhow::bail!("injected Model::math failure for chain {chain}");
        }
        let log = new_log(self.keep_records);
        if let Some(plan) = self.plans.get(&chain) {
            log.lock().unwrap().plan = plan.clone();
        }
        if let Some(d) = self.delays.get(&chain) {
            log.lock().unwrap().delay_us = *d;
        }
        self.logs.lock().unwrap().insert(chain, log.clone());
        let mut dens = Logged::with_log(self.target.clone(), log);
        if self.math_uses_rng {
            use rand::RngExt;
            let u: f64 = rng.random();
            dens.shift = 0.25 * (u - 0.5);
        }
        Ok(CpuMath::new(dens))
    }

    fn init_position<R: rand::Rng + ?Sized>(
        &self,
        rng: &mut R,
        position: &mut [f64],
    ) -> anyhow::Result<()> {
        use rand::RngExt;
        let chain = crate::sched::current_chain();
        let call_no = {
            let mut calls = self.init_calls.lock().unwrap();
            let e = calls.entry(chain).or_default();
            *e += 1;
            *e
        };
        if self.faults.init_fail_chains.contains(&chain) {
            anyhow::bail!("injected Model::init_position failure for chain {chain}");
        }
        let invalid = self.faults.init_invalid_chains.contains(&chain)
            || self.faults.init_invalid_first.iter().any(|(c, k)| *c == chain && call_no <= *k);
        for p in position.iter_mut() {
            let u: f64 = rng.random();
            *p = if invalid { f64::NAN } else { (2.0 * u - 1.0) * self.init_scale };
        }
        if self.faults.same_start_for_all_chains && !invalid {
            // every chain starts from one fixed, generic point
            for (i, p) in position.iter_mut().enumerate() {
                *p = 0.37 + 0.11 * (i % 7) as f64;
            }
        }
        Ok(())
    }
}
