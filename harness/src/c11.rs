//! C11 — controller never deadlocks; traces are complete or an exact prefix.

use std::collections::BTreeMap;
use std::time::Duration;

use serde_json::{Value as J, json};

use crate::Args;
use crate::chains::{ALL_PRESETS, Preset};
use crate::dens::Target;
use crate::par::{self, CallOutcome, Cmd, Final, RunLog, RunSpec, Watched};
use crate::recorder::RecFinal;
use crate::report::Report;
use crate::sched;
use crate::util::{Fnv, HRng};

#[derive(Clone, Debug)]
pub struct Case {
    pub preset: Preset,
    pub num_tune: u64,
    pub num_draws: u64,
    pub num_chains: u64,
    pub cores: usize,
    pub seed: u64,
    pub dim: usize,
    pub delays: Vec<(i64, u64)>,
    pub sched_seed: u64,
    pub yield_permille: u32,
    pub sleep_permille: u32,
    pub script: Vec<Cmd>,
    pub kind: &'static str,
    pub idx: u64,
    /// bit 0: recoverable density errors at seeded evaluations (divergent draws; MCLMC without step size retry),
    /// bit 1: slow record_sample (commands land while a chain is recording),
    /// bit 2: the first initial points of every chain are invalid (initialisation is retried)
    pub variant: u64,
}

fn gen_script(rng: &mut HRng, kind: &str, total_draws: u64) -> Vec<Cmd> {
    let mut v = vec![];
    let mut paused = false;
    let mut push_random = |v: &mut Vec<Cmd>, rng: &mut HRng, paused: &mut bool| match rng.below(9) {
        0 => {
            v.push(Cmd::Pause);
            *paused = true
        }
        1 | 2 => {
            v.push(Cmd::Resume);
            *paused = false
        }
        3 => v.push(Cmd::Progress),
        4 => v.push(Cmd::Flush),
        5 => v.push(Cmd::Inspect),
        6 => v.push(Cmd::SleepUs(rng.below(400))),
        7 => v.push(Cmd::Wait(rng.below(3))),
        _ => {
            if *paused {
                v.push(Cmd::Quiesce)
            } else {
                v.push(Cmd::Progress)
            }
        }
    };
    match kind {
        "storm" => {
            for _ in 0..(1 + rng.below(30)) {
                push_random(&mut v, rng, &mut paused);
            }
        }
        "abort_early" => {
            for _ in 0..rng.below(3) {
                push_random(&mut v, rng, &mut paused);
            }
            v.push(Cmd::Abort);
        }
        "abort_paused" => {
            v.push(Cmd::AwaitDraws(rng.below(total_draws.max(1)), 2000));
            v.push(Cmd::Pause);
            if rng.bool(0.5) {
                v.push(Cmd::Pause);
            }
            if rng.bool(0.7) {
                v.push(Cmd::Quiesce);
            }
            v.push(Cmd::Abort);
        }
        "abort_mid" => {
            v.push(Cmd::AwaitDraws(rng.below(total_draws.max(1)), 2000));
            for _ in 0..rng.below(6) {
                push_random(&mut v, rng, &mut paused);
            }
            v.push(Cmd::Abort);
        }
        "after_completion" => {
            v.push(Cmd::AwaitDraws(total_draws, 20000));
            for _ in 0..(2 + rng.below(10)) {
                push_random(&mut v, rng, &mut paused);
            }
            v.push(Cmd::Quiesce);
        }
        "repeated_pause" => {
            for _ in 0..(1 + rng.below(4)) {
                v.push(Cmd::Pause);
                v.push(Cmd::Pause);
                if rng.bool(0.5) {
                    v.push(Cmd::Quiesce);
                }
                v.push(Cmd::Resume);
                v.push(Cmd::Resume);
                v.push(Cmd::SleepUs(rng.below(500)));
            }
        }
        _ => {}
    }
    if paused && !matches!(v.last(), Some(Cmd::Abort)) {
        v.push(Cmd::Resume);
    }
    v
}

pub fn gen_case(seed: u64, idx: u64) -> Case {
    let mut rng = HRng::new(seed).fork(idx);
    let preset = ALL_PRESETS[(idx % 6) as usize];
    let kind = ["storm", "abort_early", "abort_paused", "abort_mid", "after_completion", "repeated_pause", "storm", "storm"][(idx / 6 % 8) as usize];
    let num_chains = rng.int_range(1, 8) as u64;
    let cores = match rng.below(3) {
        0 => (num_chains as usize).saturating_sub(1).max(1),
        1 => num_chains as usize,
        _ => num_chains as usize + rng.int_range(1, 8) as usize,
    };
    // a run may consist of warmup only, and of nothing at all (both counts zero)
    let (num_tune, num_draws) = match idx % 40 {
        17 => (0, 0),
        31 => (rng.int_range(1, 20) as u64, 0),
        _ => (rng.int_range(0, 20) as u64, rng.int_range(1, 20) as u64),
    };
    let mut delays = vec![];
    if rng.bool(0.6) {
        for c in 0..num_chains as i64 {
            if rng.bool(0.5) {
                delays.push((c, rng.below(60)));
            }
        }
    }
    let script = gen_script(&mut rng, kind, (num_tune + num_draws) * num_chains);
    Case {
        preset,
        num_tune,
        num_draws,
        num_chains,
        cores,
        seed: rng.next_u64(),
        dim: rng.int_range(2, 4) as usize,
        delays,
        sched_seed: rng.next_u64(),
        yield_permille: *rng.choose(&[0u32, 300, 700]),
        sleep_permille: *rng.choose(&[0u32, 50, 150]),
        script,
        kind,
        idx,
        variant: match (idx / 48) % 4 {
            1 => 1,
            2 => 2,
            3 => 4,
            _ => 0,
        },
    }
}

/// Model / storage variants of a case; the uninterrupted reference run uses the same ones.
pub fn apply_variant(c: &Case, s: &mut RunSpec) {
    if c.variant & 1 != 0 {
        let mut rng = HRng::new(c.seed ^ 0xD1F);
        for ch in 0..c.num_chains as i64 {
            let mut plan = BTreeMap::new();
            let mut k = 12 + rng.below(20);
            while k < 3000 {
                plan.insert(k, crate::dens::Fault::Recoverable);
                k += 3 + rng.below(25);
            }
            s.plans.insert(ch, plan);
        }
    }
    if c.variant & 2 != 0 {
        s.storage_faults.record_delay_us = 300 + (c.seed % 1500);
    }
    if c.variant & 4 != 0 {
        s.model_faults.init_invalid_first = (0..c.num_chains as i64).map(|ch| (ch, 1 + (c.seed + ch as u64) % 3)).collect();
    }
}

fn settings_of(c: &Case) -> J {
    // with injected density errors an MCLMC chain must diverge instead of retrying with a smaller step, and a NUTS
    // chain must not re-run its step size search (known C05 finding at that call site)
    let extra: Vec<(&str, J)> = if c.variant & 1 != 0 {
        if c.preset.is_nuts() {
            vec![("adapt_options.step_size_settings.adapt_options.method", json!({"Fixed": 0.3}))]
        } else {
            vec![("dynamic_step_size", json!(false))]
        }
    } else {
        vec![]
    };
    par::small_settings(c.preset, c.num_tune, c.num_draws, c.num_chains, c.seed, &extra)
}

pub fn case_json(c: &Case) -> J {
    json!({"preset": c.preset.name(), "num_tune": c.num_tune, "num_draws": c.num_draws, "num_chains": c.num_chains, "cores": c.cores, "seed": c.seed,
        "dim": c.dim, "delays": c.delays, "sched_seed": c.sched_seed, "yield_permille": c.yield_permille, "sleep_permille": c.sleep_permille,
        "script": c.script.iter().map(|x| x.to_json()).collect::<Vec<_>>(), "kind": c.kind, "idx": c.idx, "variant": c.variant})
}

pub fn case_from_json(j: &J) -> Case {
    let kind = ["storm", "abort_early", "abort_paused", "abort_mid", "after_completion", "repeated_pause", "systematic", "random", "fault"]
        .into_iter()
        .find(|k| *k == j["kind"].as_str().unwrap())
        .unwrap_or("storm");
    Case {
        preset: Preset::from_name(j["preset"].as_str().unwrap()).unwrap(),
        num_tune: j["num_tune"].as_u64().unwrap(),
        num_draws: j["num_draws"].as_u64().unwrap(),
        num_chains: j["num_chains"].as_u64().unwrap(),
        cores: j["cores"].as_u64().unwrap() as usize,
        seed: j["seed"].as_u64().unwrap(),
        dim: j["dim"].as_u64().unwrap() as usize,
        delays: j["delays"].as_array().unwrap().iter().map(|e| (e[0].as_i64().unwrap(), e[1].as_u64().unwrap())).collect(),
        sched_seed: j["sched_seed"].as_u64().unwrap(),
        yield_permille: j["yield_permille"].as_u64().unwrap() as u32,
        sleep_permille: j["sleep_permille"].as_u64().unwrap() as u32,
        script: j["script"].as_array().unwrap().iter().map(Cmd::from_json).collect(),
        kind,
        idx: j["idx"].as_u64().unwrap(),
        variant: j.get("variant").and_then(|v| v.as_u64()).unwrap_or(0),
    }
}

pub fn spec_of(c: &Case) -> RunSpec {
    let mut s = RunSpec::new(c.preset, settings_of(c), Target::iso(c.dim, 0.2), c.cores);
    apply_variant(c, &mut s);
    s.delays = c.delays.iter().cloned().collect();
    s.sched_seed = c.sched_seed;
    s.yield_permille = c.yield_permille;
    s.sleep_permille = c.sleep_permille;
    s.max_sleep_us = 400;
    s.log_events = true;
    s.script = c.script.clone();
    s.final_wait_ms = 15_000;
    s
}

/// Uninterrupted single-core reference hashes for the case's configuration.
pub fn reference(c: &Case) -> Option<BTreeMap<u64, Vec<u64>>> {
    if c.num_tune + c.num_draws == 0 {
        // a run without any draw records nothing: no run is needed to know its trace
        return Some((0..c.num_chains).map(|ch| (ch, vec![])).collect());
    }
    let mut s = RunSpec::new(c.preset, settings_of(c), Target::iso(c.dim, 0.2), 2);
    apply_variant(c, &mut s);
    s.storage_faults.record_delay_us = 0;
    match par::run_watched(&s, Duration::from_secs(120)) {
        Watched::Done(l) if matches!(l.fin, Final::Trace(_)) => Some(par::hashes(&l.records)),
        _ => None,
    }
}

fn final_hashes(t: &RecFinal) -> BTreeMap<u64, Vec<u64>> {
    t.chains.iter().map(|(c, v)| (*c, v.iter().map(|r| r.hash()).collect())).collect()
}

/// Judge a finished run. Shared with C12 / C13 for the generic part.
pub fn judge(report: &mut Report, prop: &str, c: &Case, log: &RunLog, refh: &BTreeMap<u64, Vec<u64>>, replay: &J) {
    let pname = c.preset.name();
    let sig = |what: &str| format!("{prop}:{pname}:{what}");
    let expected = (c.num_tune + c.num_draws) as usize;
    let aborted = c.script.iter().any(|x| *x == Cmd::Abort);
    // every client call returned without an error or a panic
    for call in &log.calls {
        match &call.outcome {
            CallOutcome::Err(e) => {
                report.violation(sig(&format!("call_failed:{}", call.cmd.name().split('(').next().unwrap())), format!("{} returned an error: {e}", call.cmd.name()), replay.clone());
            }
            CallOutcome::Timeout if matches!(call.cmd, Cmd::Quiesce) => {
                report.violation(sig("no_quiescence"), "progress kept changing for 5 s while the sampler should be idle".to_string(), replay.clone());
            }
            _ => {}
        }
    }
    let got = par::hashes(&log.records);
    // records are in order per chain
    for (ch, recs) in &log.records {
        for (i, r) in recs.iter().enumerate() {
            if r.draw != i as u64 || r.progress_chain != *ch {
                report.violation(sig("records_out_of_order"), format!("chain {ch}: record {i} carries draw counter {} / chain {}", r.draw, r.progress_chain), replay.clone());
                break;
            }
        }
    }
    match &log.fin {
        Final::Trace(t) => {
            let _ = aborted; // a wait() earlier in the script may legitimately have seen the run finish
            for ch in 0..c.num_chains {
                let n = got.get(&ch).map(|v| v.len()).unwrap_or(0);
                if n != expected {
                    report.violation(sig("finished_run_incomplete"), format!("chain {ch} recorded {n} of {expected} draws but the sampler reported itself finished"), replay.clone());
                } else if got.get(&ch) != refh.get(&ch) {
                    report.violation(sig("finished_run_differs_from_reference"), format!("chain {ch}: trace differs from the uninterrupted run"), replay.clone());
                }
            }
            let fh = final_hashes(t);
            if fh.len() != c.num_chains as usize || fh.iter().any(|(ch, v)| got.get(ch) != Some(v)) {
                report.violation(sig("finalized_trace_differs_from_records"), format!("finalized chains {:?}, recorded {:?}", fh.iter().map(|(c, v)| (*c, v.len())).collect::<Vec<_>>(), got.iter().map(|(c, v)| (*c, v.len())).collect::<Vec<_>>()), replay.clone());
            }
        }
        Final::Aborted(err, t) => {
            if let Some(e) = err {
                report.violation(sig("abort_reports_error_on_healthy_run"), e.clone(), replay.clone());
            }
            // every chain's trace is a prefix of the full run
            let fh = final_hashes(t);
            for (ch, v) in fh.iter().chain(got.iter()) {
                let full = refh.get(ch).cloned().unwrap_or_default();
                if v.len() > full.len() || v[..] != full[..v.len()] {
                    report.violation(sig("aborted_trace_is_not_a_prefix"), format!("chain {ch}: {} records, not a prefix of the uninterrupted run ({} records)", v.len(), full.len()), replay.clone());
                    break;
                }
            }
            // every chain that recorded something is part of the returned trace
            for (ch, v) in got.iter() {
                if !v.is_empty() && !fh.contains_key(ch) {
                    report.violation(sig("aborted_trace_misses_chain"), format!("chain {ch} recorded {} draws but is not in the trace returned by abort (chains returned: {:?})", v.len(), fh.keys().collect::<Vec<_>>()), replay.clone());
                    break;
                }
            }
            for (ch, v) in &fh {
                // the returned trace holds what was recorded before abort took the chain's storage
                let rec = got.get(ch).cloned().unwrap_or_default();
                if v.len() > rec.len() || v[..] != rec[..v.len()] {
                    report.violation(sig("aborted_trace_differs_from_records"), format!("chain {ch}"), replay.clone());
                }
            }
            report.count("aborted_runs", 1);
        }
        Final::AbortErr(e) => report.violation(sig("abort_failed_on_healthy_run"), e.clone(), replay.clone()),
        Final::Err(e, _) => report.violation(sig("healthy_run_reported_error"), e.clone(), replay.clone()),
        Final::ClientPanic(p) => report.violation(sig("client_call_panicked"), p.clone(), replay.clone()),
        Final::NotFinished => report.violation(sig("run_did_not_finish"), format!("the sampler did not finish within the wait budget after the script (last calls: {:?})", log.calls.iter().rev().take(4).map(|c| c.cmd.name()).collect::<Vec<_>>()), replay.clone()),
    }
    // progress counters agree with the trace at quiescent points
    for call in &log.calls {
        if let CallOutcome::Quiesced(p, counts) = &call.outcome {
            report.count("quiescent_points_checked", 1);
            for (ch, pl) in p.iter().enumerate() {
                let (n, div, steps, _) = counts.get(&(ch as u64)).copied().unwrap_or((0, 0, 0, 0));
                if pl.finished_draws != n || pl.divergences != div || pl.total_num_steps != steps {
                    report.violation(
                        sig("progress_disagrees_with_trace"),
                        format!("chain {ch} at a quiescent point: progress (finished {}, divergences {}, steps {}) vs trace ({n}, {div}, {steps})", pl.finished_draws, pl.divergences, pl.total_num_steps),
                        replay.clone(),
                    );
                }
                if pl.total_draws != expected {
                    report.violation(sig("progress_total_draws"), format!("chain {ch}: total_draws {} expected {expected}", pl.total_draws), replay.clone());
                }
            }
        }
    }
}

/// True once several runs failed to finish: the verdict is established, further cases would only cost time.
pub fn too_many_hangs(report: &Report) -> bool {
    report.violation_counts.iter().filter(|(k, _)| k.contains("run_did_not_finish") || k.contains("deadlock") || k.contains(":hang")).map(|(_, v)| *v).sum::<u64>() >= 3
}

/// Re-run a stalled case in child processes; true if it stalls there as well.
pub fn reproduce_stall(prop: &str, replay: &J) -> (bool, bool) {
    let dir = std::env::temp_dir().join(format!("nutsverif-stall-{}", std::process::id()));
    let _ = std::fs::create_dir_all(&dir);
    let path = dir.join("case.json");
    let _ = std::fs::write(&path, json!({"replay": replay}).to_string());
    let exe = std::env::current_exe().unwrap();
    let mut stalled = vec![];
    // schedule dependent deadlocks do not show on every run: up to four fresh processes, stop at the first stall
    for _ in 0..4 {
        let child = std::process::Command::new(&exe).arg(prop.to_lowercase()).arg("--replay").arg(&path).arg("--mode").arg("stallcheck").arg("--out").arg(dir.join("out.json")).stdout(std::process::Stdio::null()).stderr(std::process::Stdio::null()).spawn();
        let Ok(mut child) = child else { return (false, false) };
        let t0 = std::time::Instant::now();
        let code = loop {
            match child.try_wait() {
                Ok(Some(st)) => break st.code(),
                Ok(None) if t0.elapsed() > Duration::from_secs(240) => {
                    let _ = child.kill();
                    break None;
                }
                Ok(None) => std::thread::sleep(Duration::from_millis(50)),
                Err(_) => break None,
            }
        };
        stalled.push(code == Some(3));
        if code == Some(3) {
            break;
        }
    }
    let _ = std::fs::remove_dir_all(&dir);
    let any = stalled.iter().any(|x| *x);
    (any, any)
}

/// Run one case under the watchdog; returns false if the process must stop (leaked threads).
pub fn run_case(report: &mut Report, prop: &str, c: &Case, stallcheck: bool) -> bool {
    report.eval();
    let replay = case_json(c);
    let pname = c.preset.name();
    let Some(refh) = reference(c) else {
        report.inconclusive("reference run failed");
        return true;
    };
    let spec = spec_of(c);
    match par::run_watched(&spec, Duration::from_secs(30)) {
        Watched::Done(log) => {
            judge(report, prop, c, &log, &refh, &replay);
            let mut h = Fnv::new();
            h.str(pname).str(c.kind).u64((c.num_chains as usize > c.cores) as u64).u64((c.num_chains as usize == c.cores) as u64);
            report.nontrivial(h.finish());
            report.nontrivial(sched::signature(&log.events));
            report.count("client_calls_returned", log.calls.len() as u64);
            report.count("schedule_events_logged", log.events.len() as u64);
            if report.samples.len() < 3 {
                report.sample(json!({"case": replay, "calls": log.calls.iter().map(|c| json!([c.cmd.name(), c.t_call, c.t_ret])).collect::<Vec<_>>(),
                    "records_per_chain": log.records.iter().map(|(c, v)| json!([c, v.len()])).collect::<Vec<_>>()}));
            }
            true
        }
        Watched::Stalled { cpu_idle } => {
            if stallcheck {
                std::process::exit(3);
            }
            if cpu_idle {
                let (all, any) = reproduce_stall(prop, &replay);
                if all {
                    report.violation(format!("{prop}:{pname}:deadlock:{}", c.kind), "a client call did not return within 30 s, the process consumed no CPU time, and the stall (again with an idle process) was reproduced in a fresh process".to_string(), replay);
                } else {
                    report.inconclusive(if any { "stall reproduced only once" } else { "stall not reproduced" });
                }
            } else {
                report.inconclusive("watchdog expired while the process was busy");
            }
            false
        }
    }
}

pub fn run(args: &Args, report: &mut Report) {
    report.rule = "cases = preset x script family (random storm, abort early / while paused / mid-run, commands after completion, repeated pause / resume) x \
        num_chains 1..8 with num_cores <, =, > num_chains x per-chain density delays x seeded yields / sleeps at the schedule points; every client call is \
        logged (call / return on the logical clock); distinct = (preset, family, cores relation) and distinct interleaving signatures".into();
    report.assumptions.push("liveness is bounded: a call that does not return within 30 s with zero process CPU time, and that stalls the same way in at least one of up to four fresh processes, is a deadlock; any other watchdog expiry is inconclusive".into());
    report.assumptions.push("scripts end with resume or abort: a sampler left paused does not terminate by design".into());
    sched::install();
    let seed = args.seed ^ 0xC11;
    if let Some(r) = &args.replay {
        let c = case_from_json(r);
        let stallcheck = args.mode.as_deref() == Some("stallcheck");
        // a schedule dependent stall needs several attempts: the stall check repeats the case (exit code 3 on a stall)
        for _ in 0..(if stallcheck { 40 } else { 1 }) {
            run_case(report, "C11", &c, stallcheck);
        }
        return;
    }
    if args.mode.as_deref() == Some("miri") {
        // two chains, a handful of draws, no watchdog thread: Miri reports UB, data races and deadlocks of the
        // schedule it executes (one schedule per -Zmiri-seed)
        for i in 0..3u64 {
            let mut c = gen_case(seed, i * 6);
            c.num_chains = 2;
            c.cores = 2;
            c.num_tune = 3;
            c.num_draws = 3;
            c.dim = 2;
            c.delays.clear();
            c.yield_permille = 0;
            c.sleep_permille = 0;
            c.script = match i {
                0 => vec![Cmd::Pause, Cmd::Progress, Cmd::Resume],
                1 => vec![Cmd::Flush, Cmd::Inspect, Cmd::Pause, Cmd::Abort],
                _ => vec![Cmd::Progress, Cmd::Wait(1)],
            };
            report.eval();
            // the interpreter is several thousand times slower than the host clock the final wait is measured on
            let mut spec = spec_of(&c);
            spec.final_wait_ms = 1_800_000;
            let log = par::run(&spec);
            let mut h = Fnv::new();
            h.str("miri").u64(i);
            report.nontrivial(h.finish());
            report.nontrivial(sched::signature(&log.events));
            if let Final::ClientPanic(p) = &log.fin {
                report.violation(format!("C11:{}:client_call_panicked", c.preset.name()), p.clone(), case_json(&c));
            }
            if let Final::NotFinished = &log.fin {
                report.violation(format!("C11:{}:run_did_not_finish", c.preset.name()), "under Miri".to_string(), case_json(&c));
            }
        }
        return;
    }
    let n = report.size(240, 15_000);
    for i in 0..n {
        if too_many_hangs(report) {
            report.inconclusive("remaining cases not run after repeated unfinished runs");
            break;
        }
        if !run_case(report, "C11", &gen_case(seed, i), false) {
            report.inconclusive("remaining cases not run after a stalled run");
            break;
        }
    }
}
