//! C04 — adapted samplers reproduce known posteriors end to end (statistical monitor).

use serde_json::{Value as J, json};

use crate::Args;
use crate::chains::{Preset, build_chain, settings_json, start_point};
use crate::dens::{Logged, Target};
use crate::report::Report;
use crate::script::{MathEvent, ScriptMath};
use crate::util::{Fnv, HRng, guard, mean, panic_site, phi, variance};

#[derive(Clone, Debug)]
struct Cfg {
    preset: Preset,
    kind: &'static str,
    method: &'static str,
    target: &'static str,
    dim: usize,
    idx: u64,
}

fn make_target(c: &Cfg, rng: &mut HRng) -> Target {
    let d = c.dim;
    match c.target {
        "iso" => Target::iso(d, 1.5),
        "scaled" => Target::scaled(rng, d, 1e3), // condition number 1e6 in variance
        "correlated" => Target::correlated(rng, d.min(50), 100.0),
        "ar1" => Target::ar1(d.min(50), 0.9),
        "scaled_correlated" => Target::scaled_correlated(rng, d.min(50), 25.0, 1e4),
        "student_t" => Target::StudentT { nu: 7.0, mu: (0..d).map(|_| rng.range(-2.0, 2.0)).collect(), sigma: (0..d).map(|_| rng.log_range(0.3, 3.0)).collect() },
        _ => Target::Gumbel { mu: (0..d).map(|_| rng.range(-2.0, 2.0)).collect(), beta: (0..d).map(|_| rng.log_range(0.3, 3.0)).collect() },
    }
}

fn configs(thorough: bool) -> Vec<Cfg> {
    let mut v = vec![];
    let targets = ["iso", "scaled", "correlated", "ar1", "student_t", "gumbel", "scaled_correlated"];
    let dims: &[usize] = if thorough { &[1, 2, 10, 50, 100] } else { &[1, 2, 10, 50] };
    let mut idx = 0;
    for preset in [Preset::DiagNuts, Preset::LowRankNuts] {
        for kind in ["Euclidean", "ExactNormal"] {
            for method in ["DualAverage", "Adam"] {
                for (ti, target) in targets.iter().enumerate() {
                    for (di, &dim) in dims.iter().enumerate() {
                        idx += 1;
                        // quick: a latin-square style subset that still covers every preset x kind x method and every target x dim
                        if !thorough && false {
                            continue;
                        }
                        // the per-configuration random stream must not depend on the tier's list of dimensions
                        let mut h = crate::util::Fnv::new();
                        h.str(preset.name()).str(kind).str(method).str(target).u64(dim as u64);
                        let _ = idx;
                        v.push(Cfg { preset, kind, method, target, dim, idx: h.finish() >> 16 });
                    }
                }
            }
        }
    }
    v
}

fn cfg_json(c: &Cfg) -> J {
    json!({"preset": c.preset.name(), "kind": c.kind, "method": c.method, "target": c.target, "dim": c.dim, "idx": c.idx})
}

struct Flag {
    what: String,
    z: f64,
    detail: String,
}

struct RunOut {
    flags: Vec<Flag>,
    n_tests: u64,
    max_abs_z: f64,
    divergences: u64,
    draws: u64,
    momentum_flags: Vec<Flag>,
    /// largest mean number of leapfrogs per draw over the chains of the run
    max_mean_steps: f64,
}

fn batch_se(per_chain: &[Vec<f64>]) -> (f64, f64) {
    // pooled mean and batch-means standard error over all chains
    let mut bm = vec![];
    for xs in per_chain {
        let nb = 20usize;
        let bs = xs.len() / nb;
        if bs == 0 {
            continue;
        }
        for b in 0..nb {
            bm.push(mean(&xs[b * bs..(b + 1) * bs]));
        }
    }
    let m = mean(&bm);
    let se = (variance(&bm) / bm.len() as f64).sqrt();
    (m, se)
}

const LEAPFROG_BUDGET_PER_DRAW: u64 = 300;

fn run_config(c: &Cfg, seed: u64, n_chains: usize, draws: usize, observe_momentum: bool) -> Result<RunOut, String> {
    let mut rng = HRng::new(seed).fork(c.idx);
    let target = make_target(c, &mut rng);
    let d = target.dim();
    let patches: Vec<(&str, J)> = vec![
        ("trajectory_kind", json!(c.kind)),
        ("adapt_options.step_size_settings.adapt_options.method", json!(c.method)),
        ("store_transformed", json!(observe_momentum)),
    ];
    let (j, _) = settings_json(c.preset, &patches);
    let num_tune = j["num_tune"].as_u64().unwrap() as usize;
    let mut chains_x: Vec<Vec<Vec<f64>>> = vec![]; // chain -> coord -> draws
    let mut divergences = 0;
    let mut gauss: Vec<Vec<f64>> = vec![];
    let mut prev_white: Vec<Vec<f64>> = vec![];
    let mut zero_refresh_draws = 0u64;
    let mut max_mean_steps: f64 = 0.0;
    for ch in 0..n_chains {
        let mut math = ScriptMath::new(Logged::new(target.clone(), false));
        math.log.record_gaussian = observe_momentum && ch == 0;
        let mut chain = build_chain(c.preset, &j, math, rng.next_u64(), ch as u64).map_err(|e| e.to_string())?;
        let start = start_point(&target, &mut rng);
        chain.set_position(&start).map_err(|e| format!("set_position: {e}"))?;
        let mut xs = vec![Vec::with_capacity(draws); d];
        // leapfrog budget of a chain: a mean of LEAPFROG_BUDGET_PER_DRAW steps per draw over the whole run. The
        // unchanged code stays far below it on every configuration (the largest mean seen is reported as
        // `max_mean_leapfrogs_per_draw`); a change that sends every tree to maxdepth would otherwise turn the quick
        // tier into hours. A chain that runs out is cut short: fewer than 100 post-warmup draws make the whole
        // configuration inconclusive, otherwise the (batch-means) tests run on what was drawn.
        let budget = LEAPFROG_BUDGET_PER_DRAW * (num_tune + draws) as u64;
        let mut steps_total = 0u64;
        for dd in 0..(num_tune + draws) {
            if steps_total > budget {
                if dd < num_tune + 100 {
                    return Err(format!("leapfrog budget exhausted after {dd} draws ({steps_total} leapfrogs)"));
                }
                break;
            }
            let white_before = if observe_momentum && ch == 0 && dd >= num_tune { chain.state_parts().map(|p| p.transformed_position) } else { None };
            let o = chain.draw().map_err(|e| format!("draw {dd}: {e}"))?;
            steps_total += o.progress.num_steps;
            if dd >= num_tune {
                if o.progress.diverging {
                    divergences += 1;
                }
                for i in 0..d {
                    xs[i].push(o.position[i]);
                }
            }
            if observe_momentum && ch == 0 {
                let mut ev = vec![];
                chain.with_math(&mut |m| ev = std::mem::take(&mut m.log.events));
                if dd >= num_tune {
                    let gs: Vec<Vec<f64>> = ev.into_iter().filter_map(|e| if let MathEvent::Gaussian(g) = e { Some(g) } else { None }).collect();
                    if gs.is_empty() {
                        zero_refresh_draws += 1;
                    }
                    if let (Some(g), Some(w)) = (gs.into_iter().next(), white_before) {
                        gauss.push(g);
                        prev_white.push(w);
                    }
                }
            }
        }
        max_mean_steps = max_mean_steps.max(steps_total as f64 / (num_tune + xs[0].len()).max(1) as f64);
        chains_x.push(xs);
    }
    // chains cut short by the budget: compare equally long series
    let n_min = chains_x.iter().map(|c| c.first().map(|v| v.len()).unwrap_or(0)).min().unwrap_or(0);
    for c in chains_x.iter_mut() {
        for v in c.iter_mut() {
            v.truncate(n_min);
        }
    }
    let mut flags = vec![];
    let mut n_tests = 0;
    let mut max_abs_z: f64 = 0.0;
    let mut test = |what: String, est: f64, truth: f64, se: f64, detail: String, flags: &mut Vec<Flag>| {
        n_tests += 1;
        // guard against a vanishing standard error on (almost) constant series
        let z = (est - truth) / se.max(1e-12 * (1.0 + truth.abs()));
        if z.is_finite() {
            max_abs_z = max_abs_z.max(z.abs());
        }
        if !z.is_finite() || z.abs() > 7.5 {
            flags.push(Flag { what, z, detail });
        }
    };
    if let Some((mu, var)) = target.moments() {
        for i in 0..d {
            let per_chain: Vec<Vec<f64>> = chains_x.iter().map(|c| c[i].clone()).collect();
            let (m, se) = batch_se(&per_chain);
            test(format!("mean"), m, mu[i], se, format!("coord {i}: mean {m} truth {} se {se}", mu[i]), &mut flags);
            let sq: Vec<Vec<f64>> = per_chain.iter().map(|xs| xs.iter().map(|x| (x - mu[i]) * (x - mu[i])).collect()).collect();
            let (v, sev) = batch_se(&sq);
            test(format!("variance"), v, var[i], sev, format!("coord {i}: variance {v} truth {} se {sev}", var[i]), &mut flags);
        }
    }
    for i in 0..d.min(10) {
        for p in [0.1, 0.5, 0.9] {
            if let Some(q) = target.quantile(i, p) {
                let ind: Vec<Vec<f64>> = chains_x.iter().map(|c| c[i].iter().map(|x| (*x <= q) as u8 as f64).collect()).collect();
                let (f, se) = batch_se(&ind);
                test(format!("quantile_{}", (p * 100.0) as u32), f, p, se.max(1e-3), format!("coord {i}: fraction below the true {p} quantile = {f} (se {se})"), &mut flags);
            }
        }
    }
    // momentum law on the first chain
    let mut momentum_flags = vec![];
    if observe_momentum && !gauss.is_empty() {
        if zero_refresh_draws > 0 {
            momentum_flags.push(Flag { what: "no_momentum_refresh".into(), z: zero_refresh_draws as f64, detail: format!("{zero_refresh_draws} post-warmup draws without any momentum draw") });
        }
        let all: Vec<f64> = gauss.iter().flatten().copied().collect();
        let n = all.len() as f64;
        let m = mean(&all);
        let v = variance(&all);
        let kurt = all.iter().map(|x| (x - m).powi(4)).sum::<f64>() / n / (v * v);
        let zm = m * n.sqrt();
        let zv = (v - 1.0) / (2.0 / n).sqrt();
        let zk = (kurt - 3.0) / (24.0 / n).sqrt();
        // KS distance against Phi
        let mut sorted = all.clone();
        sorted.sort_by(|a, b| a.partial_cmp(b).unwrap());
        let ks = sorted.iter().enumerate().map(|(i, x)| {
            let f = phi(*x);
            ((i as f64 + 1.0) / n - f).abs().max((f - i as f64 / n).abs())
        }).fold(0.0, f64::max);
        let zks = ks * n.sqrt();
        // lag-1 correlation between successive refreshes and correlation with the previous whitened position
        let mut num = 0.0;
        let (mut sa, mut sb) = (0.0, 0.0);
        for w in gauss.windows(2) {
            for i in 0..w[0].len() {
                num += w[0][i] * w[1][i];
                sa += w[0][i] * w[0][i];
                sb += w[1][i] * w[1][i];
            }
        }
        let r1 = num / (sa * sb).sqrt().max(1e-300);
        let (mut num2, mut sy, mut sv) = (0.0, 0.0, 0.0);
        for (g, y) in gauss.iter().zip(&prev_white) {
            for i in 0..g.len() {
                num2 += g[i] * y[i];
                sy += y[i] * y[i];
                sv += g[i] * g[i];
            }
        }
        let r2 = num2 / (sy * sv).sqrt().max(1e-300);
        for (what, z, thr) in [("momentum_mean", zm, 7.5), ("momentum_variance", zv, 7.5), ("momentum_kurtosis", zk, 9.0), ("momentum_ks", zks, 2.6), ("momentum_lag1_correlation", r1 * n.sqrt(), 7.5), ("momentum_position_correlation", r2 * n.sqrt(), 7.5)] {
            if !z.is_finite() || z.abs() > thr {
                momentum_flags.push(Flag { what: what.into(), z, detail: format!("{what}: standardised statistic {z:.2} over {} momentum components", all.len()) });
            }
        }
    }
    Ok(RunOut { flags, n_tests, max_abs_z, divergences, draws: (n_chains * n_min) as u64, momentum_flags, max_mean_steps })
}

pub fn run(args: &Args, report: &mut Report) {
    report.rule = "configurations = {Diag, LowRank} x {Euclidean, ExactNormal} x {DualAverage, Adam} x targets {iso, scaled (cond 1e6), correlated, AR(1), \
        Student-t, Gumbel, correlated with unequal scales} x dims {1,2,10,50(,100)} with default settings, several chains each; post-warmup means, variances and 10/50/90% quantile \
        coverage are z-tested (batch-means standard errors, |z| > 7.5 flags) and every flag must be confirmed on three fresh seeds with 4x the draws \
        and the same sign; momentum draws of one chain per configuration are tested for N(0,I) (mean, variance, kurtosis, KS), lag-1 and position \
        correlation; distinct = configuration".into();
    report.assumptions.push("statistical oracle: detects effects well above Monte-Carlo error only; a flag that is not reproduced by all three confirmation runs is recorded as inconclusive".into());
    report.assumptions.push("well-conditioned targets = the Gaussian families with condition number <= 100 (iso, AR(1) rho 0.9, random correlated); they must show no post-warmup divergence".into());
    let seed = args.seed ^ 0xC04;
    let thorough = report.thorough();
    let cfgs: Vec<Cfg> = if let Some(r) = &args.replay {
        configs(true)
            .into_iter()
            .filter(|c| {
                c.preset.name() == r["preset"].as_str().unwrap()
                    && c.kind == r["kind"].as_str().unwrap()
                    && c.method == r["method"].as_str().unwrap()
                    && c.target == r["target"].as_str().unwrap()
                    && c.dim as u64 == r["dim"].as_u64().unwrap()
            })
            .collect()
    } else {
        configs(thorough)
    };
    let (n_chains, draws) = if thorough { (16, 4000) } else { (4, 1000) };
    crate::report::par_run(report, cfgs.len() as u64, |i, rep| {
        let c = &cfgs[i as usize];
        rep.eval();
        let replay = cfg_json(c);
        let tag = format!("{}:{}:{}:{}", c.preset.name(), c.kind, c.method, c.target);
        let r = guard(|| run_config(c, seed, n_chains, draws, true));
        let out = match r {
            Err(p) => {
                rep.violation(format!("C04:{tag}:panic:{}", panic_site(&p)), p, replay);
                return;
            }
            Ok(Err(e)) if e.starts_with("leapfrog budget exhausted") => {
                rep.inconclusive("leapfrog budget exhausted before 100 post-warmup draws");
                return;
            }
            Ok(Err(e)) => {
                rep.violation(format!("C04:{tag}:chain_error"), e, replay);
                return;
            }
            Ok(Ok(o)) => o,
        };
        let mut h = Fnv::new();
        h.str(&tag).u64(c.dim as u64);
        rep.nontrivial(h.finish());
        rep.count("post_warmup_draws", out.draws);
        rep.count("moment_and_quantile_tests", out.n_tests);
        rep.count("post_warmup_divergences", out.divergences);
        {
            let e = rep.extra.entry("max_mean_leapfrogs_per_draw".to_string()).or_insert(json!(0.0));
            if out.max_mean_steps > e.as_f64().unwrap_or(0.0) {
                *e = json!(out.max_mean_steps);
            }
        }
        let e = rep.extra.entry("max_abs_z".to_string()).or_insert(json!(0.0));
        if out.max_abs_z > e.as_f64().unwrap_or(0.0) {
            *e = json!(out.max_abs_z);
        }
        // divergences on well-conditioned targets
        let well = matches!(c.target, "iso" | "ar1" | "correlated");
        if well && out.divergences > 0 {
            // confirm: divergences must reappear with fresh seeds
            let mut again = 0;
            for k in 0..3u64 {
                if let Ok(Ok(o2)) = guard(|| run_config(c, seed ^ (0x9000 + k), n_chains, draws, false)) {
                    if o2.divergences > 0 {
                        again += 1;
                    }
                }
            }
            if again == 3 {
                rep.violation(format!("C04:{tag}:divergences_on_well_conditioned_target"), format!("dim {}: {} post-warmup divergences in {} draws, reproduced on 3 fresh seeds", c.dim, out.divergences, out.draws), replay.clone());
            } else {
                rep.inconclusive("post-warmup divergence not reproduced");
            }
        }
        let all_flags: Vec<&Flag> = out.flags.iter().chain(out.momentum_flags.iter()).collect();
        if !all_flags.is_empty() {
            // confirmation stage: three fresh seeds, 4x the draws, same statistic and sign every time
            let mut confirm: Vec<RunOut> = vec![];
            for k in 0..3u64 {
                match guard(|| run_config(c, seed ^ (0x5000 + k), n_chains, draws * 4, true)) {
                    Ok(Ok(o)) => confirm.push(o),
                    _ => {}
                }
            }
            let mut reported = std::collections::HashSet::new();
            for f in all_flags {
                let same = confirm.len() == 3
                    && confirm.iter().all(|o| o.flags.iter().chain(o.momentum_flags.iter()).any(|g| g.what == f.what && g.z.signum() == f.z.signum()));
                if same {
                    if reported.insert(f.what.clone()) {
                        rep.violation(
                            format!("C04:{tag}:{}_{}", f.what, if f.z > 0.0 { "high" } else { "low" }),
                            format!("dim {}: {} (z = {:.1}), confirmed on 3 fresh seeds with 4x the draws", c.dim, f.detail, f.z),
                            replay.clone(),
                        );
                    }
                } else {
                    rep.inconclusive("flag not confirmed by replication");
                }
            }
        }
        if i % 7 == 0 {
            rep.sample(json!({"config": replay, "chains": n_chains, "post_warmup_draws": out.draws, "tests": out.n_tests, "max_abs_z": out.max_abs_z, "divergences": out.divergences}));
        }
    });
}
