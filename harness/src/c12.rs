//! C12 — pause stops chains within a bounded number of draws; resume loses nothing.

use std::collections::BTreeMap;
use std::time::Duration;

use serde_json::{Value as J, json};

use crate::Args;
use crate::c11::{self, Case};
use crate::chains::ALL_PRESETS;
use crate::par::{self, CallOutcome, Cmd, Final, Watched};
use crate::report::Report;
use crate::sched::{self, Gate, pt};
use crate::util::{Fnv, HRng};

const POINTS: [(u32, &str); 8] = [
    (pt::CHAIN_START, "chain_start"),
    (pt::CHAIN_BEFORE_INIT, "before_init"),
    (pt::CHAIN_LOOP_TOP, "loop_top"),
    (pt::CHAIN_BEFORE_DRAW, "before_draw"),
    (pt::CHAIN_AFTER_DRAW, "after_draw"),
    (pt::CHAIN_AFTER_RECORD, "after_record"),
    (pt::CHAIN_BEFORE_TRYRECV, "before_tryrecv"),
    (pt::CHAIN_PAUSED, "paused"),
];

#[derive(Clone, Debug)]
struct PCase {
    base: Case,
    gates: Vec<(u32, i64, Option<u64>)>,
    /// number of control commands sent before the judged pause within its burst
    burst: Vec<Cmd>,
    hold_ms: u64,
}

fn pcase_json(p: &PCase) -> J {
    json!({"base": c11::case_json(&p.base), "gates": p.gates, "burst": p.burst.iter().map(|c| c.to_json()).collect::<Vec<_>>(), "hold_ms": p.hold_ms})
}

fn pcase_from_json(j: &J) -> PCase {
    PCase {
        base: c11::case_from_json(&j["base"]),
        gates: j["gates"].as_array().unwrap().iter().map(|g| (g[0].as_u64().unwrap() as u32, g[1].as_i64().unwrap(), g[2].as_u64())).collect(),
        burst: j["burst"].as_array().unwrap().iter().map(Cmd::from_json).collect(),
        hold_ms: j["hold_ms"].as_u64().unwrap(),
    }
}

fn gen_pcase(seed: u64, idx: u64, systematic: bool) -> PCase {
    let mut rng = HRng::new(seed).fork(idx);
    let preset = ALL_PRESETS[(idx % 6) as usize];
    let num_chains = rng.int_range(1, 6) as u64;
    let cores = if rng.bool(0.3) { (num_chains as usize).saturating_sub(1).max(1) } else { num_chains as usize + rng.below(3) as usize };
    let num_tune = rng.int_range(0, 12) as u64;
    let num_draws = rng.int_range(4, 16) as u64;
    let total = num_tune + num_draws;
    let mut gates = vec![];
    let mut burst = vec![];
    let kind;
    if systematic {
        // hold one chain at one loop point, pause, release
        let (p, _) = POINTS[((idx / 6) % 7) as usize];
        let chain = rng.below(num_chains.min(cores as u64)) as i64;
        let draw = if p == pt::CHAIN_START || p == pt::CHAIN_BEFORE_INIT { None } else { Some(rng.below(total - 2) + if p == pt::CHAIN_AFTER_RECORD || p == pt::CHAIN_BEFORE_TRYRECV { 1 } else { 0 }) };
        gates.push((p, chain, draw));
        kind = "systematic";
    } else {
        // random placement: several chains held at different points, command burst before the pause
        for c in 0..num_chains.min(cores as u64) {
            if rng.bool(0.6) {
                let (p, _) = POINTS[rng.below(7) as usize];
                let draw = if p == pt::CHAIN_START || p == pt::CHAIN_BEFORE_INIT { None } else { Some(1 + rng.below(total - 2)) };
                gates.push((p, c as i64, draw));
            }
        }
        for _ in 0..rng.below(4) {
            burst.push(if rng.bool(0.6) { Cmd::Resume } else { Cmd::Pause });
        }
        kind = "random";
    }
    let mut delays = vec![];
    if rng.bool(0.4) {
        for c in 0..num_chains as i64 {
            if rng.bool(0.5) {
                delays.push((c, rng.below(40)));
            }
        }
    }
    let n_gates = gates.len();
    // script: wait for the gates, burst, the judged pause, release, settle, stay paused for a while, settle again, resume
    let mut script = vec![];
    if n_gates > 0 {
        script.push(Cmd::AwaitGates(n_gates));
    } else {
        script.push(Cmd::AwaitDraws(rng.below(total * num_chains / 2 + 1), 2000));
    }
    script.extend(burst.iter().cloned());
    script.push(Cmd::Pause);
    script.push(Cmd::ReleaseGates);
    script.push(Cmd::Quiesce);
    let hold_ms = rng.below(15);
    script.push(Cmd::SleepUs(hold_ms * 1000));
    script.push(Cmd::Quiesce);
    if rng.bool(0.3) {
        script.push(Cmd::Pause);
        script.push(Cmd::Quiesce);
    }
    script.push(Cmd::Resume);
    if rng.bool(0.3) {
        script.push(Cmd::Resume);
    }
    let base = Case {
        preset,
        num_tune,
        num_draws,
        num_chains,
        cores,
        seed: rng.next_u64(),
        dim: rng.int_range(2, 4) as usize,
        delays,
        sched_seed: rng.next_u64(),
        yield_permille: *rng.choose(&[0u32, 300]),
        sleep_permille: *rng.choose(&[0u32, 50]),
        script,
        kind,
        idx,
        // one case in four: the first initial points of every chain are invalid, so that a pause can meet a chain
        // in the middle of its initialisation retries
        variant: if (idx / 42) % 4 == 3 { 4 } else { 0 },
    };
    PCase { base, gates, burst, hold_ms }
}

fn run_pcase(report: &mut Report, p: &PCase, stallcheck: bool) -> bool {
    report.eval();
    let c = &p.base;
    let pname = c.preset.name();
    let replay = pcase_json(p);
    let sig = |what: &str| format!("C12:{pname}:{what}");
    let Some(refh) = c11::reference(c) else {
        report.inconclusive("reference run failed");
        return true;
    };
    let mut spec = c11::spec_of(c);
    spec.gates = p.gates.iter().map(|(pnt, ch, d)| Gate { point: *pnt, chain: *ch, draw: *d, remaining: 1 }).collect();
    let log = match par::run_watched(&spec, Duration::from_secs(30)) {
        Watched::Done(l) => l,
        Watched::Stalled { cpu_idle } => {
            if stallcheck {
                std::process::exit(3);
            }
            if cpu_idle {
                let (all, any) = c11::reproduce_stall("C12", &replay);
                if all {
                    report.violation(sig("deadlock"), "a client call did not return within 30 s with an idle process; reproduced in a fresh process".to_string(), replay);
                } else {
                    report.inconclusive(if any { "stall reproduced only once" } else { "stall not reproduced" });
                }
            } else {
                report.inconclusive("watchdog expired while the process was busy");
            }
            return false;
        }
    };
    if log.gate_timeouts > 0 || log.calls.iter().any(|c| matches!(c.cmd, Cmd::AwaitGates(_)) && matches!(c.outcome, CallOutcome::Timeout)) {
        // the gate was never reached (e.g. the chain finished before the requested draw) or timed out
        report.inconclusive("gate not reached or timed out");
        return true;
    }
    // generic part: completes, in order, identical to the uninterrupted run, progress agrees at quiescent points
    c11::judge(report, "C12", c, &log, &refh, &replay);
    // the judged pause: the first Pause after the burst
    let pause_idx = log.calls.iter().position(|c| c.cmd == Cmd::Pause && !matches!(c.outcome, CallOutcome::Skipped));
    let Some(mut pi) = pause_idx else { return true };
    pi += p.burst.iter().filter(|c| **c == Cmd::Pause).count().min(log.calls.len());
    let pi = log.calls.iter().enumerate().filter(|(_, c)| c.cmd == Cmd::Pause).map(|(i, _)| i).nth(p.burst.iter().filter(|c| **c == Cmd::Pause).count()).unwrap_or(pi);
    let t_pause_ret = log.calls[pi].t_ret;
    let resume_idx = log.calls.iter().enumerate().skip(pi).find(|(_, c)| c.cmd == Cmd::Resume).map(|(i, _)| i);
    let t_resume_call = resume_idx.map(|i| log.calls[i].t_call).unwrap_or(u64::MAX);
    // bound: one further draw, plus one per control command queued before the pause in this burst
    let queued = p.burst.len();
    let bound = 1 + queued;
    let mut max_after = 0;
    for (ch, recs) in &log.records {
        let after = recs.iter().filter(|r| r.clock > t_pause_ret && r.clock < t_resume_call).count();
        max_after = max_after.max(after);
        // a chain that had not entered its draw loop when pause() returned must not start drawing while paused
        let in_loop = log.events.iter().any(|e| e.chain == *ch as i64 && e.point == pt::CHAIN_LOOP_TOP && e.clock < t_pause_ret);
        if !in_loop && after > queued {
            report.violation(
                sig("unstarted_chain_drew_while_paused"),
                format!("chain {ch} had not entered its draw loop when pause() returned but recorded {after} draws before resume() (queued commands: {queued}); gates {:?}", p.gates),
                replay.clone(),
            );
        }
        if after > bound {
            report.violation(
                sig("records_after_pause_returned"),
                format!("chain {ch} recorded {after} draws between the return of pause() and the call of resume() (bound {bound}: one draw plus {queued} queued commands); gates {:?}", p.gates),
                replay.clone(),
            );
        }
    }
    report.count("pause_placements_judged", 1);
    // while paused nothing is recorded: both quiescent snapshots taken during the pause agree
    let qs: Vec<&BTreeMap<u64, (usize, usize, usize, u64)>> = log.calls[pi..resume_idx.unwrap_or(log.calls.len())]
        .iter()
        .filter_map(|c| if let CallOutcome::Quiesced(_, counts) = &c.outcome { Some(counts) } else { None })
        .collect();
    for w in qs.windows(2) {
        // with commands queued before the judged pause a chain may still legitimately work them off (one draw each);
        // the strict "nothing at all" clause is judged when no other command was outstanding
        if queued == 0 && w[0].iter().any(|(ch, v)| w[1].get(ch).map(|x| x.0) != Some(v.0)) {
            report.violation(sig("recorded_while_paused"), format!("record counts changed between two quiescent points of one pause: {:?} -> {:?}", w[0], w[1]), replay.clone());
        }
    }
    // a chain that had not started when the pause settled did not record during the pause
    for call in &log.calls[pi..resume_idx.unwrap_or(log.calls.len())] {
        if let CallOutcome::Quiesced(prog, counts) = &call.outcome {
            for (ch, pl) in prog.iter().enumerate() {
                if !pl.started && counts.get(&(ch as u64)).map(|x| x.0).unwrap_or(0) > 0 {
                    report.violation(sig("unstarted_chain_recorded"), format!("chain {ch} reports started = false but has records"), replay.clone());
                }
            }
            report.count("chains_not_started_while_paused", prog.iter().filter(|p| !p.started).count() as u64);
        }
    }
    // coverage: pause point x chain state
    for (pnt, _, _) in &p.gates {
        let name = POINTS.iter().find(|x| x.0 == *pnt).map(|x| x.1).unwrap_or("?");
        report.count(&format!("pause_while_chain_at_{name}"), 1);
    }
    report.count("max_draws_after_pause_observed", 0);
    let e = report.extra.entry("max_records_after_pause".to_string()).or_insert(json!(0.0));
    if (max_after as f64) > e.as_f64().unwrap_or(0.0) {
        *e = json!(max_after as f64);
    }
    let mut h = Fnv::new();
    h.str(pname).str(c.kind).u64(p.gates.first().map(|g| g.0 as u64).unwrap_or(0)).u64((c.num_chains as usize > c.cores) as u64).u64(queued as u64);
    report.nontrivial(h.finish());
    report.nontrivial(sched::signature(&log.events));
    if report.samples.len() < 3 {
        report.sample(json!({"case": replay, "pause_returned_at_clock": t_pause_ret, "resume_called_at_clock": t_resume_call,
            "records_after_pause_per_chain": log.records.iter().map(|(c, v)| json!([c, v.iter().filter(|r| r.clock > t_pause_ret && r.clock < t_resume_call).count()])).collect::<Vec<_>>(),
            "final": format!("{:?}", std::mem::discriminant(&log.fin))}));
    }
    let _ = Final::NotFinished;
    true
}

pub fn run(args: &Args, report: &mut Report) {
    report.rule = "systematic placements: one chain is held by a gate at each of the 7 loop points (chain start, before init, loop top, before / after draw, \
        after record, before try_recv) at a random draw, pause() is issued and returns, then the gate is released; random placements: several chains held \
        at different points plus a burst of up to 3 queued resume / pause commands before the judged pause; recording backend and client share one logical \
        clock; distinct = (preset, kind, gate point, chains > cores, queued commands) and interleaving signatures".into();
    report.assumptions.push("bound on draws recorded after pause() returned = 1 + number of control commands issued in the same burst before that pause".into());
    report.assumptions.push("cases whose gate is never reached (the chain finished first) are inconclusive".into());
    sched::install();
    let seed = args.seed ^ 0xC12;
    if let Some(r) = &args.replay {
        let stallcheck = args.mode.as_deref() == Some("stallcheck");
        for _ in 0..(if stallcheck { 40 } else { 1 }) {
            run_pcase(report, &pcase_from_json(r), stallcheck);
        }
        return;
    }
    let n_sys = report.size(168, 12_600);
    let n_rand = report.size(120, 9000);
    for i in 0..(n_sys + n_rand) {
        let p = gen_pcase(seed, i, i < n_sys);
        if crate::c11::too_many_hangs(report) {
            report.inconclusive("remaining cases not run after repeated unfinished runs");
            break;
        }
        if !run_pcase(report, &p, false) {
            report.inconclusive("remaining cases not run after a stalled run");
            break;
        }
    }
}
