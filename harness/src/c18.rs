//! C18 — MCLMC keeps its structural invariants.

use serde_json::{Value as J, json};

use crate::Args;
use crate::chains::{Preset, build_chain, get_path, settings_json, start_point};
use crate::dens::{Fault, Logged, Target};
use crate::report::Report;
use crate::script::{EshCall, MathEvent, ScriptMath};
use crate::util::{Fnv, HRng, dot, guard, norm, panic_site};

#[derive(Clone, Debug)]
struct Cfg {
    preset: Preset,
    dim: usize,
    patches: Vec<(String, J)>,
    target: &'static str,
    faults: Vec<u64>,
    seed: u64,
    num_tune: u64,
}

fn gen_cfg(seed: u64, idx: u64) -> Cfg {
    let mut rng = HRng::new(seed).fork(idx);
    let preset = [Preset::DiagMclmc, Preset::LowRankMclmc, Preset::FlowMclmc][(idx % 3) as usize];
    let dim = 2 + rng.below(9) as usize;
    let num_tune = rng.int_range(0, 40) as u64;
    let step = rng.log_range(0.02, 0.8);
    let kind = *rng.choose(&["Microcanonical", "Euclidean", "EuclideanEarlyThenMicrocanonical"]);
    let mut patches: Vec<(String, J)> = vec![
        ("num_tune".into(), json!(num_tune)),
        ("num_draws".into(), json!(30)),
        ("step_size".into(), json!(step)),
        ("momentum_decoherence_length".into(), json!(rng.log_range(0.2, 5.0))),
        ("subsample_frequency".into(), json!(if rng.bool(0.2) { 0.0 } else { rng.range(0.05, 1.5) })),
        ("dynamic_step_size".into(), json!(rng.bool(0.5))),
        ("trajectory_kind".into(), json!(kind)),
        ("trajectory_switch_fraction".into(), json!(rng.range(0.0, 1.0))),
        ("adapt_options.step_size_settings.jitter".into(), if rng.bool(0.5) { J::Null } else { json!(rng.range(0.0, 0.4)) }),
        ("adapt_options.early_mass_matrix_switch_freq".into(), json!(rng.int_range(2, 10))),
        ("adapt_options.mass_matrix_switch_freq".into(), json!(rng.int_range(3, 15))),
        ("adapt_options.transform_update_freq".into(), json!(rng.int_range(3, 15))),
    ];
    if preset == Preset::FlowMclmc {
        patches.push(("adapt_options.step_size_settings.adapt_options.method".into(), json!({"Fixed": step})));
    }
    let target = *rng.choose(&["iso", "scaled", "funnel"]);
    if rng.bool(0.4) {
        patches.push(("max_energy_error".into(), json!(rng.log_range(0.05, 50.0))));
    }
    let n_faults = if rng.bool(0.6) { 1 + rng.below(10) } else { 0 };
    let faults = (0..n_faults).map(|_| 3 + rng.below(800)).collect();
    Cfg { preset, dim, patches, target, faults, seed: rng.next_u64(), num_tune }
}

fn cfg_json(c: &Cfg) -> J {
    json!({"preset": c.preset.name(), "dim": c.dim, "target": c.target, "seed": c.seed, "faults": c.faults, "num_tune": c.num_tune,
        "patches": c.patches.iter().map(|(p, v)| json!([p, v])).collect::<Vec<_>>()})
}

fn cfg_from_json(j: &J) -> Cfg {
    Cfg {
        preset: Preset::from_name(j["preset"].as_str().unwrap()).unwrap(),
        dim: j["dim"].as_u64().unwrap() as usize,
        num_tune: j["num_tune"].as_u64().unwrap(),
        target: match j["target"].as_str().unwrap() {
            "iso" => "iso",
            "scaled" => "scaled",
            _ => "funnel",
        },
        seed: j["seed"].as_u64().unwrap(),
        faults: j["faults"].as_array().unwrap().iter().map(|v| v.as_u64().unwrap()).collect(),
        patches: j["patches"].as_array().unwrap().iter().map(|e| (e[0].as_str().unwrap().to_string(), e[1].clone())).collect(),
    }
}

/// Closed-form ESH update: (new momentum, kinetic energy change)
fn esh_reference(g: &[f64], p: &[f64], step: f64) -> (Vec<f64>, f64) {
    let n = g.len() as f64;
    let gn = norm(g);
    let ghat: Vec<f64> = g.iter().map(|x| x / gn).collect();
    let alpha = dot(p, &ghat);
    let delta = step * gn / (n - 1.0);
    let zeta = (-delta).exp();
    let raw: Vec<f64> = (0..g.len()).map(|i| ghat[i] * (1.0 - zeta) * (1.0 + zeta + alpha * (1.0 - zeta)) + 2.0 * zeta * p[i]).collect();
    let rn = norm(&raw);
    let out = raw.iter().map(|x| x / rn).collect();
    let dke = (delta - std::f64::consts::LN_2 + (1.0 + alpha + (1.0 - alpha) * zeta * zeta).ln()) * (n - 1.0);
    (out, dke)
}

fn check_esh(report: &mut Report, pname: &str, c: &EshCall, d: u64, replay: &J) -> bool {
    let sig = |what: &str| format!("C18:{pname}:{what}");
    let nin = norm(&c.mom_in);
    let nout = norm(&c.mom_out);
    if !((nin - 1.0).abs() <= 1e-12) {
        report.violation(sig("momentum_entering_esh_not_unit"), format!("draw {d}: |p| = {nin:.17} entering the ESH update"), replay.clone());
        return false;
    }
    if !((nout - 1.0).abs() <= 1e-12) {
        report.violation(sig("momentum_leaving_esh_not_unit"), format!("draw {d}: |p| = {nout:.17} after the ESH update"), replay.clone());
        return false;
    }
    if c.grad.iter().any(|x| !x.is_finite()) || norm(&c.grad) == 0.0 {
        return true; // no closed form for a degenerate gradient
    }
    let (want, dke) = esh_reference(&c.grad, &c.mom_in, c.step);
    let err = c.mom_out.iter().zip(&want).map(|(a, b)| (a - b).abs()).fold(0.0, f64::max);
    // conditioning: for large delta the update is p' ~ ghat with relative error ~ eps * exp(delta)... the formula is stable; keep 1e-12 * scale
    let delta = c.step.abs() * norm(&c.grad) / (c.grad.len() as f64 - 1.0);
    // when the momentum is (almost) anti-parallel to the gradient both terms of the raw update cancel: rounding errors
    // of size eps in either term are amplified by (|coefficients|) / |raw update| before the renormalisation
    let amplification = {
        let gn = norm(&c.grad);
        let alpha: f64 = c.mom_in.iter().zip(&c.grad).map(|(p, g)| p * g / gn).sum();
        let zeta = (-(c.step * gn / (c.grad.len() as f64 - 1.0))).exp();
        let cg = (1.0 - zeta) * (1.0 + zeta + alpha * (1.0 - zeta));
        let raw: Vec<f64> = c.mom_in.iter().zip(&c.grad).map(|(p, g)| cg * g / gn + 2.0 * zeta * p).collect();
        (1.0 + cg.abs() + 2.0 * zeta + (1.0 - zeta) * (1.0 - zeta)) / norm(&raw).max(1e-300)
    };
    let tol = 1e-12 * (1.0 + delta) + 256.0 * f64::EPSILON * amplification;
    if !(err <= tol) {
        report.violation(sig("esh_update_differs_from_closed_form"), format!("draw {d}: max component error {err:e} (delta {delta}, amplification {amplification:e}, tolerance {tol:e})"), replay.clone());
        return false;
    }
    // ln(1 + alpha + (1 - alpha) zeta^2) loses digits when alpha is close to -1 (the same cancellation as above)
    let ke_amplification = {
        let gn = norm(&c.grad);
        let alpha: f64 = c.mom_in.iter().zip(&c.grad).map(|(p, g)| p * g / gn).sum();
        let zeta = (-delta).exp();
        (1.0 + alpha.abs()) / (1.0 + alpha + (1.0 - alpha) * zeta * zeta).abs().max(1e-300)
    };
    let tol_ke = 1e-11 * (1.0 + dke.abs() + delta * (c.grad.len() as f64)) + 256.0 * f64::EPSILON * ke_amplification * (c.grad.len() as f64);
    if 256.0 * f64::EPSILON * ke_amplification > 1e-3 {
        // momentum opposite to the gradient to within rounding: the logarithm has no significant digit left (the
        // closed form itself moves by more than its value under a one-ulp change of alpha); nothing to compare
        report.count("esh_energy_changes_too_ill_conditioned_to_compare", 1);
        return true;
    }
    if !((c.delta_ke - dke).abs() <= tol_ke) {
        report.violation(sig("esh_kinetic_energy_change"), format!("draw {d}: reported {} closed form {dke}", c.delta_ke), replay.clone());
        return false;
    }
    true
}

fn run_cfg(report: &mut Report, c: &Cfg, verbose: bool) {
    report.eval();
    let pname = c.preset.name();
    let replay = cfg_json(c);
    let sig = |what: &str| format!("C18:{pname}:{what}");
    let mut trng = HRng::new(c.seed);
    let target = match c.target {
        "iso" => Target::iso(c.dim, 0.3),
        "scaled" => Target::scaled(&mut trng, c.dim, 20.0),
        _ => Target::Funnel { k: c.dim - 1 },
    };
    let start = start_point(&target, &mut trng);
    let dens = Logged::new(target, false);
    {
        let mut l = dens.log.lock().unwrap();
        for k in &c.faults {
            l.plan.insert(*k, Fault::Recoverable);
        }
    }
    let patches: Vec<(&str, J)> = c.patches.iter().map(|(p, v)| (p.as_str(), v.clone())).collect();
    let (j, _) = settings_json(c.preset, &patches);
    let built = guard(|| {
        let math = ScriptMath::new(dens.clone()).recording();
        let mut chain = build_chain(c.preset, &j, math, c.seed, 0).expect("settings");
        let r = chain.set_position(&start);
        (chain, r)
    });
    let (mut chain, init) = match built {
        Ok(v) => v,
        Err(p) => {
            report.violation(format!("C18:{pname}:panic_in_setup:{}", panic_site(&p)), p, replay);
            return;
        }
    };
    if init.is_err() {
        report.inconclusive("set_position failed");
        return;
    }
    let getf = |p: &str| get_path(&j, p).and_then(|v| v.as_f64()).unwrap();
    let (ell, freq) = (getf("momentum_decoherence_length"), getf("subsample_frequency"));
    let dynamic = get_path(&j, "dynamic_step_size").and_then(|v| v.as_bool()).unwrap();
    let kind = get_path(&j, "trajectory_kind").and_then(|v| v.as_str()).unwrap().to_string();
    let switch_draw = (getf("trajectory_switch_fraction") * c.num_tune as f64) as u64;
    let mut take = |chain: &dyn crate::chains::DynChain| -> Vec<MathEvent> {
        let mut ev = vec![];
        chain.with_math(&mut |m| ev = std::mem::take(&mut m.log.events));
        ev
    };
    let _ = take(chain.as_ref());
    let mut prev_pos = start.clone();
    let mut prev_logp: Option<f64> = None;
    let mut first_esh_draw: Option<u64> = None;
    let (mut n_div, mut n_esh, mut n_retry) = (0u64, 0u64, 0u64);
    let total = c.num_tune + 30;
    for d in 0..total {
        let out = match guard(|| chain.draw()) {
            Ok(Ok(o)) => o,
            Ok(Err(e)) => {
                report.violation(sig("draw_error"), format!("draw {d}: {e}"), replay.clone());
                return;
            }
            Err(p) => {
                report.violation(format!("C18:{pname}:panic_in_draw:{}", panic_site(&p)), format!("draw {d}: {p}"), replay.clone());
                return;
            }
        };
        let events = take(chain.as_ref());
        let eshs: Vec<&EshCall> = events.iter().filter_map(|e| if let MathEvent::Esh(c) = e { Some(c) } else { None }).collect();
        n_esh += eshs.len() as u64;
        for e in &eshs {
            if !check_esh(report, pname, e, d, &replay) {
                return;
            }
        }
        for e in &events {
            if let MathEvent::Normalize(before, after) = e {
                let n = norm(after);
                if before.iter().all(|x| x.is_finite()) && norm(before) > 1e-300 && !((n - 1.0).abs() <= 1e-12) {
                    report.violation(sig("normalised_momentum_not_unit"), format!("draw {d}: |p| = {n:.17} after array_normalize"), replay.clone());
                    return;
                }
            }
        }
        // trajectory kind: ESH exactly from the configured draw on, never back
        let uses_esh = !eshs.is_empty();
        let expect_esh = match kind.as_str() {
            "Microcanonical" => true,
            "Euclidean" => false,
            _ => d >= switch_draw,
        };
        if uses_esh && first_esh_draw.is_none() {
            first_esh_draw = Some(d);
            if kind == "EuclideanEarlyThenMicrocanonical" && d > 0 {
                // the switch draw starts with a fresh momentum: gaussian then normalise before the first ESH call
                let first_esh = events.iter().position(|e| matches!(e, MathEvent::Esh(_))).unwrap();
                let g = events[..first_esh].iter().position(|e| matches!(e, MathEvent::Gaussian(_)));
                let nrm = events[..first_esh].iter().position(|e| matches!(e, MathEvent::Normalize(..)));
                let fresh = match (g, nrm) {
                    (Some(g), Some(nn)) => {
                        // the normalised vector is the gaussian draw
                        if let (MathEvent::Gaussian(gv), MathEvent::Normalize(before, _)) = (&events[g], &events[nn]) {
                            g < nn && gv.iter().zip(before).all(|(a, b)| a.to_bits() == b.to_bits())
                        } else {
                            false
                        }
                    }
                    _ => false,
                };
                if !fresh {
                    report.violation(sig("switch_without_fresh_momentum"), format!("draw {d}: first microcanonical draw does not start from a freshly drawn, normalised momentum"), replay.clone());
                }
            }
        }
        // steps evaluated in this draw decide (a draw with only failed evaluations has no ESH call in Euclidean mode)
        let n_logp = events.iter().filter(|e| matches!(e, MathEvent::Logp)).count() as u64;
        if n_logp > 0 && uses_esh != expect_esh {
            report.violation(
                sig("trajectory_kind_at_wrong_draw"),
                format!("draw {d}: ESH calls {} but trajectory kind {kind} with switch draw {switch_draw} expects microcanonical = {expect_esh}", eshs.len()),
                replay.clone(),
            );
            return;
        }
        // step accounting
        let eps = out.progress.step_size;
        let want_steps = ((freq * ell / eps).round().max(1.0)).min(1e6) as u64;
        let diverging = out.progress.diverging;
        if !diverging {
            if dynamic {
                if out.progress.num_steps < want_steps {
                    report.violation(sig("too_few_steps"), format!("draw {d}: {} steps, expected at least {want_steps} (f {freq} L {ell} eps {eps})", out.progress.num_steps), replay.clone());
                }
                if out.progress.num_steps > want_steps {
                    n_retry += 1;
                }
            } else if out.progress.num_steps != want_steps {
                report.violation(sig("step_count"), format!("draw {d}: {} steps, expected max(1, round(f L / eps)) = {want_steps} (f {freq} L {ell} eps {eps})", out.progress.num_steps), replay.clone());
            }
            if let Some(ns) = out.u64("num_steps") {
                if ns != out.progress.num_steps {
                    report.violation(sig("num_steps_statistic"), format!("draw {d}: stat {ns} progress {}", out.progress.num_steps), replay.clone());
                }
            }
        } else {
            n_div += 1;
            if out.position.iter().zip(&prev_pos).any(|(a, b)| a.to_bits() != b.to_bits()) {
                report.violation(sig("divergent_draw_moved"), format!("draw {d}"), replay.clone());
            }
            // full momentum refresh after the last density evaluation of the draw
            let last_logp = events.iter().rposition(|e| matches!(e, MathEvent::Logp)).unwrap_or(0);
            let tail = &events[last_logp..];
            let g = tail.iter().rposition(|e| matches!(e, MathEvent::Gaussian(_)));
            let fresh = match g {
                None => None,
                Some(gi) => {
                    let MathEvent::Gaussian(gv) = &tail[gi] else { unreachable!() };
                    if uses_esh || expect_esh {
                        // followed by a normalisation of exactly that vector
                        tail[gi..].iter().find_map(|e| match e {
                            MathEvent::Normalize(before, after) if before.iter().zip(gv).all(|(a, b)| a.to_bits() == b.to_bits()) => Some(after.clone()),
                            _ => None,
                        })
                    } else {
                        Some(gv.clone())
                    }
                }
            };
            match (fresh, chain.state_parts()) {
                (Some(v), Some(sp)) => {
                    if sp.velocity.iter().zip(&v).any(|(a, b)| a.to_bits() != b.to_bits()) {
                        report.violation(sig("momentum_not_refreshed_after_divergence"), format!("draw {d}: the state's momentum is not the freshly drawn vector"), replay.clone());
                    }
                }
                (None, _) => {
                    report.violation(sig("momentum_not_refreshed_after_divergence"), format!("draw {d}: no momentum draw after the divergence"), replay.clone());
                }
                _ => {}
            }
        }
        // energy bookkeeping of a microcanonical draw: the reported energy change is the sum of the kinetic energy changes
        // of all its ESH updates minus the change of the log density (the transformation is fixed within a draw)
        if uses_esh && expect_esh && !diverging && eshs.len() as u64 == 2 * out.progress.num_steps && n_logp == out.progress.num_steps {
            if let (Some(lp0), Some(lp1), Some(ec)) = (prev_logp, out.f64("logp"), out.f64("energy_change")) {
                let ske: f64 = eshs.iter().map(|e| e.delta_ke).sum();
                let want = ske - (lp1 - lp0);
                let scale = 1.0 + eshs.iter().map(|e| e.delta_ke.abs()).sum::<f64>() + lp0.abs() + lp1.abs();
                if !((ec - want).abs() <= 1e-9 * scale) {
                    report.violation(
                        sig("energy_change_is_not_the_accumulated_change"),
                        format!("draw {d} ({} steps): reported energy_change {ec:e}, sum of kinetic energy changes {ske:e} - (logp {lp1} - {lp0}) = {want:e}", out.progress.num_steps),
                        replay.clone(),
                    );
                    return;
                }
                report.count("energy_changes_accounted", 1);
            }
        }
        prev_logp = out.f64("logp");
        // unit momentum of the state the next draw starts from (microcanonical mode)
        if expect_esh && uses_esh {
            if let Some(sp) = chain.state_parts() {
                let n = norm(&sp.velocity);
                if !((n - 1.0).abs() <= 1e-12) {
                    report.violation(sig("state_momentum_not_unit"), format!("draw {d}: |p| = {n:.17}"), replay.clone());
                    return;
                }
            }
        }
        prev_pos = out.position.clone();
    }
    if kind == "EuclideanEarlyThenMicrocanonical" {
        if let Some(f) = first_esh_draw {
            if f != switch_draw {
                report.violation(sig("switch_at_wrong_draw"), format!("first microcanonical draw {f}, configured {switch_draw}"), replay.clone());
            }
        }
    }
    let mut h = Fnv::new();
    h.str(pname).str(&kind).u64(dynamic as u64).u64((n_div > 0) as u64).u64((n_retry > 0) as u64).u64(c.dim as u64 / 3).str(c.target);
    report.nontrivial(h.finish());
    report.count("draws_observed", total);
    report.count("esh_updates_checked", n_esh);
    report.count("divergent_draws", n_div);
    report.count("draws_with_step_size_retry", n_retry);
    if report.samples.is_empty() && n_div > 0 {
        report.sample(json!({"config": replay, "divergent_draws": n_div, "esh_updates": n_esh, "retries": n_retry}));
    }
    if verbose {
        eprintln!("kind {kind} switch {switch_draw} first esh {first_esh_draw:?} div {n_div} esh {n_esh} retries {n_retry}");
    }
}

pub fn run(args: &Args, report: &mut Report) {
    report.rule = "real MCLMC chains (3 presets) with dims 2..10, random step size, decoherence length, subsample frequency, trajectory kind, switch \
        fraction, dynamic step size, jitter, energy limit, on iso / scaled / funnel targets with seeded recoverable faults; every Math call is \
        recorded through a delegating Math wrapper; distinct = (preset, kind, dynamic, saw divergence, saw retry, dim bucket, target)".into();
    if let Some(r) = &args.replay {
        run_cfg(report, &cfg_from_json(r), true);
        return;
    }
    let seed = args.seed ^ 0xC18;
    let n = report.size(6000, 1_500_000);
    crate::report::par_run(report, n, |i, rep| run_cfg(rep, &gen_cfg(seed, i), false));
}
