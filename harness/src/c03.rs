//! C03 — every draw is a real trajectory state and its statistics describe it.

use std::collections::{BTreeMap, HashSet};

use nuts_rs::KineticEnergyKind;
use nuts_rs::verif::{NutsOptions, PointParts};
use serde_json::{Value as J, json};

use crate::Args;
use crate::chains::{ALL_PRESETS, Preset, chain_on, get_path, start_point};
use crate::dens::{Logged, Target};
use crate::report::Report;
use crate::tree::{Outcome, Setup, Transform, turning};
use crate::util::{Fnv, HRng, guard, mat_vec, panic_site};

// ───────────────────────── public API histories ─────────────────────────────

#[derive(Clone, Debug)]
struct Hist {
    preset: Preset,
    patches: Vec<(String, J)>,
    target: String,
    dim: usize,
    seed: u64,
    draws: u64,
}

fn hist_json(h: &Hist) -> J {
    json!({"kind": "history", "preset": h.preset.name(), "target": h.target, "dim": h.dim, "seed": h.seed, "draws": h.draws,
        "patches": h.patches.iter().map(|(p, v)| json!([p, v])).collect::<Vec<_>>()})
}

fn hist_from_json(j: &J) -> Hist {
    Hist {
        preset: Preset::from_name(j["preset"].as_str().unwrap()).unwrap(),
        target: j["target"].as_str().unwrap().to_string(),
        dim: j["dim"].as_u64().unwrap() as usize,
        seed: j["seed"].as_u64().unwrap(),
        draws: j["draws"].as_u64().unwrap(),
        patches: j["patches"].as_array().unwrap().iter().map(|e| (e[0].as_str().unwrap().to_string(), e[1].clone())).collect(),
    }
}

fn make_target(name: &str, dim: usize, rng: &mut HRng) -> Target {
    match name {
        "iso" => Target::iso(dim, 0.3),
        "scaled" => Target::scaled(rng, dim, 50.0),
        "correlated" => Target::correlated(rng, dim, 20.0),
        "funnel" => Target::Funnel { k: dim.max(2) - 1 },
        "logistic" => Target::Logistic { dim },
        _ => Target::iso(dim, 0.0),
    }
}

fn gen_hist(seed: u64, idx: u64) -> Hist {
    let mut rng = HRng::new(seed).fork(idx);
    let preset = ALL_PRESETS[(idx % 6) as usize];
    let mut dim = *rng.choose(&[0usize, 1, 2, 3, 5, 10, 17, 36]);
    if !preset.is_nuts() && dim < 2 {
        dim = 2;
    }
    let target = if dim >= 2 { *rng.choose(&["iso", "scaled", "correlated", "funnel", "logistic"]) } else { *rng.choose(&["iso", "scaled", "logistic"]) };
    let num_tune = rng.int_range(0, 60) as u64;
    let mut patches: Vec<(String, J)> = vec![
        ("num_tune".into(), json!(num_tune)),
        ("num_draws".into(), json!(30)),
        ("store_gradient".into(), json!(true)),
        ("store_unconstrained".into(), json!(true)),
        ("store_divergences".into(), json!(true)),
        ("adapt_options.early_mass_matrix_switch_freq".into(), json!(rng.int_range(3, 10))),
        ("adapt_options.mass_matrix_switch_freq".into(), json!(rng.int_range(5, 20))),
        ("adapt_options.transform_update_freq".into(), json!(rng.int_range(3, 20))),
    ];
    if preset.is_nuts() {
        patches.push(("maxdepth".into(), json!(rng.int_range(1, 10))));
        if rng.bool(0.3) {
            patches.push(("mindepth".into(), json!(rng.int_range(0, 3))));
        }
        if rng.bool(0.25) {
            patches.push(("target_integration_time".into(), json!(rng.log_range(0.05, 8.0))));
        }
        if rng.bool(0.4) {
            patches.push(("max_energy_error".into(), json!(rng.log_range(0.3, 100.0))));
        }
        if rng.bool(0.3) {
            patches.push(("trajectory_kind".into(), json!("ExactNormal")));
        }
        // step size method: mostly the default, sometimes Adam or a fixed step
        let m = rng.unif();
        if m < 0.2 {
            patches.push(("adapt_options.step_size_settings.adapt_options.method".into(), json!("Adam")));
        } else if m < 0.35 {
            patches.push(("adapt_options.step_size_settings.adapt_options.method".into(), json!({"Fixed": rng.log_range(0.05, 0.9)})));
        }
        if rng.bool(0.2) {
            patches.push(("extra_doublings".into(), json!(rng.int_range(1, 2))));
        }
    } else {
        patches.push(("step_size".into(), json!(rng.log_range(0.05, 0.9))));
        patches.push(("momentum_decoherence_length".into(), json!(rng.range(0.5, 3.0))));
        patches.push(("subsample_frequency".into(), json!(rng.range(0.2, 1.0))));
        patches.push(("dynamic_step_size".into(), json!(rng.bool(0.5))));
        patches.push(("trajectory_kind".into(), json!(*rng.choose(&["Microcanonical", "Euclidean", "EuclideanEarlyThenMicrocanonical"]))));
        if rng.bool(0.4) {
            patches.push(("max_energy_error".into(), json!(rng.log_range(0.5, 100.0))));
        }
        if preset == Preset::FlowMclmc {
            patches.push(("adapt_options.step_size_settings.adapt_options.method".into(), json!({"Fixed": rng.log_range(0.05, 0.9)})));
        }
    }
    Hist { preset, patches, target: target.to_string(), dim, seed: rng.next_u64(), draws: num_tune + 30 }
}

fn run_hist(report: &mut Report, hst: &Hist, verbose: bool) {
    report.eval();
    let pname = hst.preset.name();
    let replay = hist_json(hst);
    let mut trng = HRng::new(hst.seed);
    let target = make_target(&hst.target, hst.dim, &mut trng);
    let dim = target.dim();
    let start = start_point(&target, &mut trng);
    let dens = Logged::new(target.clone(), true);
    let log = dens.log.clone();
    let patches: Vec<(&str, J)> = hst.patches.iter().map(|(p, v)| (p.as_str(), v.clone())).collect();
    let built = guard(|| {
        let (mut chain, _) = chain_on(hst.preset, &patches, dens.clone(), hst.seed).expect("settings");
        let r = chain.set_position(&start);
        (chain, r)
    });
    let (mut chain, init) = match built {
        Ok(v) => v,
        Err(p) => {
            report.violation(format!("C03:{pname}:panic_in_setup:{}", panic_site(&p)), p, replay);
            return;
        }
    };
    if init.is_err() {
        report.inconclusive("set_position failed");
        return;
    }
    let settings = chain.settings_json().clone();
    let maxdepth = get_path(&settings, "maxdepth").and_then(|v| v.as_u64());
    let extra_doublings = get_path(&settings, "extra_doublings").and_then(|v| v.as_u64()).unwrap_or(0);
    let max_energy_error = get_path(&settings, "max_energy_error").and_then(|v| v.as_f64()).unwrap_or(f64::INFINITY);
    let sig = |what: &str| format!("C03:{pname}:{what}");
    let mut prev_pos = start.clone();
    let mut prev_logp: Option<f64> = None;
    let (mut n_div, mut n_stay, mut n_upd) = (0u64, 0u64, 0u64);
    let mut depth_seen: HashSet<u64> = HashSet::new();
    for d in 0..hst.draws {
        let rec_start = log.lock().unwrap().records.len();
        let out = match guard(|| chain.draw()) {
            Ok(Ok(o)) => o,
            Ok(Err(e)) => {
                report.violation(sig("draw_error"), format!("draw {d}: {e}"), replay.clone());
                return;
            }
            Err(p) => {
                report.violation(format!("C03:{pname}:panic_in_draw:{}", panic_site(&p)), format!("draw {d}: {p}"), replay.clone());
                return;
            }
        };
        let recs: Vec<(Vec<f64>, f64, Vec<f64>)> = {
            let l = log.lock().unwrap();
            l.records[rec_start..].iter().map(|r| (r.position.clone(), r.logp, r.gradient.clone())).collect()
        };
        let evals = recs.len() as u64;
        let pos = &out.position;
        let same_as_prev = pos.iter().zip(&prev_pos).all(|(a, b)| a.to_bits() == b.to_bits());
        let found = recs.iter().rev().find(|r| r.0.iter().zip(pos).all(|(a, b)| a.to_bits() == b.to_bits()));
        // 1. a real state: previous draw or a position evaluated in this call
        if !same_as_prev && found.is_none() && dim > 0 {
            report.violation(sig("position_never_evaluated"), format!("draw {d}: returned position {:?} was not evaluated in this call and differs from the previous draw", pos), replay.clone());
        }
        // 2. statistics describe that state
        let logp = out.f64("logp");
        let want_logp = if let Some(f) = found { Some(f.1) } else if same_as_prev { prev_logp } else { None };
        if let (Some(lp), Some(w)) = (logp, want_logp) {
            if lp.to_bits() != w.to_bits() && dim > 0 {
                report.violation(sig("logp_not_of_returned_state"), format!("draw {d}: stat logp {lp} but the density returned {w} at the returned position"), replay.clone());
            }
        }
        if let Some(lp) = logp {
            // 3. an independent density instance reproduces it (recycled buffer symptom)
            let mut g = vec![0.0; dim];
            let indep = target.eval(pos, &mut g);
            if lp.to_bits() != indep.to_bits() && !(lp.is_nan() && indep.is_nan()) {
                report.violation(sig("logp_not_reproducible"), format!("draw {d}: stat logp {lp} vs independent evaluation {indep}"), replay.clone());
            }
            if let Some(gs) = out.vec("gradient") {
                if gs.iter().zip(&g).any(|(a, b)| a.to_bits() != b.to_bits()) {
                    report.violation(sig("gradient_not_of_returned_state"), format!("draw {d}: gradient statistic differs from the gradient at the returned position"), replay.clone());
                }
            }
        }
        if let Some(u) = out.vec("unconstrained_draw") {
            if u.iter().zip(pos).any(|(a, b)| a.to_bits() != b.to_bits()) {
                report.violation(sig("unconstrained_draw_differs"), format!("draw {d}"), replay.clone());
            }
        }
        // the next trajectory starts from the returned draw
        if let Some(sp) = chain.state_parts() {
            if sp.position.iter().zip(pos).any(|(a, b)| a.to_bits() != b.to_bits()) {
                report.violation(sig("chain_state_is_not_the_returned_draw"), format!("draw {d}"), replay.clone());
            }
        }
        // 4. index 0 iff the chain did not move
        let index = out.i64("index_in_trajectory");
        if let Some(ix) = index {
            if dim > 0 {
                if ix == 0 && !same_as_prev {
                    report.violation(sig("index_zero_but_moved"), format!("draw {d}"), replay.clone());
                }
                if ix != 0 && same_as_prev {
                    report.violation(sig("index_nonzero_but_not_moved"), format!("draw {d}: index {ix}"), replay.clone());
                }
            }
            if ix == 0 {
                n_stay += 1;
            }
        }
        let n_steps = out.u64("n_steps").or(out.u64("num_steps"));
        let diverging = out.progress.diverging;
        if diverging {
            n_div += 1;
        }
        let upd = out.stat("transformation_update_id").is_some();
        if upd {
            n_upd += 1;
        }
        if hst.preset.is_nuts() {
            let depth = out.u64("depth").unwrap_or(0);
            depth_seen.insert(depth);
            let md = maxdepth.unwrap_or(10);
            // after a U-turn of the whole tree `extra_doublings` more doublings are made without a turning check
            if depth > md + extra_doublings {
                report.violation(sig("depth_above_maxdepth"), format!("draw {d}: depth {depth} > {md}"), replay.clone());
            }
            if let Some(ns) = n_steps {
                if dim > 0 {
                    let lo = (1u64 << depth) - 1;
                    // every extra doubling attempt adds at most 2^depth leapfrogs, whether it is kept or not
                    let hi = (1u64 << (depth + 1)) - 1 + extra_doublings * (1u64 << depth);
                    if ns < lo || ns > hi {
                        report.violation(sig("steps_vs_depth"), format!("draw {d}: depth {depth} but n_steps {ns}"), replay.clone());
                    }
                    if md >= 1 && ns == 0 {
                        report.violation(sig("zero_steps"), format!("draw {d}: no leapfrog step although maxdepth {md} >= 1 and dim {dim}; step size {}", out.progress.step_size), replay.clone());
                    }
                    // 6. step count = density evaluations (the draw re-running the step size search has more)
                    if evals < ns || (evals != ns && !upd && !hst.preset.is_flow()) {
                        report.violation(sig("steps_vs_evaluations"), format!("draw {d}: n_steps {ns} but {evals} density evaluations (update event: {upd})"), replay.clone());
                    }
                }
                if ns != out.progress.num_steps {
                    report.violation(sig("progress_num_steps"), format!("draw {d}: stat {ns} vs progress {}", out.progress.num_steps), replay.clone());
                }
            }
            if let Some(ix) = index {
                if ix.unsigned_abs() > (1u64 << depth) - 1 {
                    report.violation(sig("index_outside_tree"), format!("draw {d}: index {ix} depth {depth}"), replay.clone());
                }
            }
            // with a target integration time the depth limit in force is derived from it; the flag is only
            // judged against the configured maxdepth when no target time is set
            let has_target_time = get_path(&settings, "target_integration_time").map(|v| !v.is_null()).unwrap_or(false);
            if let Some(mr) = out.bool("maxdepth_reached") {
                if mr && (diverging || (!has_target_time && depth != md)) {
                    report.violation(sig("maxdepth_flag"), format!("draw {d}: maxdepth_reached with depth {depth} of {md}, diverging {diverging}"), replay.clone());
                }
            }
            if !diverging {
                if let Some(ee) = out.f64("energy_error") {
                    if !(ee <= max_energy_error) {
                        report.violation(sig("energy_error_above_limit_without_divergence"), format!("draw {d}: energy_error {ee} limit {max_energy_error}"), replay.clone());
                    }
                }
            }
        } else if let Some(ns) = n_steps {
            if evals < ns {
                report.violation(sig("steps_vs_evaluations"), format!("draw {d}: num_steps {ns} but {evals} density evaluations"), replay.clone());
            }
        }
        for name in ["energy", "logp"] {
            if let Some(e) = out.f64(name) {
                if !e.is_finite() && dim > 0 {
                    report.violation(sig(&format!("nonfinite_{name}")), format!("draw {d}: {name} = {e}"), replay.clone());
                }
            }
        }
        if index == Some(0) {
            if let Some(ee) = out.f64("energy_error") {
                if hst.preset.is_nuts() && ee != 0.0 {
                    report.violation(sig("energy_error_of_start_state"), format!("draw {d}: index 0 but energy_error {ee}"), replay.clone());
                }
            }
        }
        prev_pos = pos.clone();
        prev_logp = logp;
    }
    let mut h = Fnv::new();
    h.str(pname).str(&hst.target).u64(dim as u64).u64(n_div.min(2)).u64(n_stay.min(2)).u64(n_upd.min(2)).u64(depth_seen.len() as u64);
    report.nontrivial(h.finish());
    report.count("draws_observed", hst.draws);
    report.count("divergent_draws", n_div);
    report.count("draws_that_stayed", n_stay);
    if verbose {
        eprintln!("divergences {n_div} stays {n_stay} updates {n_upd} depths {depth_seen:?}");
    }
}

// ───────────────────────── termination audit (hook) ─────────────────────────

#[derive(Clone, Debug)]
struct Audit {
    setup: Setup,
    momentum: Vec<f64>,
    opts: NutsOptions,
    script_seed: u64,
    seed: u64,
    idx: u64,
}

fn gen_audit(seed: u64, idx: u64) -> Audit {
    let mut rng = HRng::new(seed).fork(0xA0D17 + idx);
    // mostly small; one case in five is wide enough for the unrolled vector loops of the U-turn and energy kernels
    let d = if idx % 5 == 4 { *rng.choose(&[16usize, 17, 24, 33, 48]) } else { 1 + rng.below(8) as usize };
    let kind = if idx % 3 == 0 { KineticEnergyKind::ExactNormal } else { KineticEnergyKind::Euclidean };
    let target = match (idx / 3) % 5 {
        0 => Target::iso(d, 0.2),
        1 => Target::scaled(&mut rng, d, 30.0),
        2 => Target::correlated(&mut rng, d, 15.0),
        3 => {
            if d >= 2 { Target::Funnel { k: d - 1 } } else { Target::Logistic { dim: d } }
        }
        _ => Target::Logistic { dim: d },
    };
    let lowrank = rng.bool(0.5);
    let transform = match Transform::random(&mut rng, d, lowrank) {
        Transform::Diag { mean, .. } => Transform::Diag { stds: (0..d).map(|_| rng.log_range(0.3, 3.0)).collect(), mean },
        Transform::LowRank { mean, vecs, mu_inner, vals, .. } => Transform::LowRank {
            stds: (0..d).map(|_| rng.log_range(0.3, 3.0)).collect(),
            mean,
            vals: vals.iter().map(|_| rng.log_range(0.2, 5.0)).collect(),
            vecs,
            mu_inner,
        },
    };
    let (f, c) = transform.dense();
    let y0: Vec<f64> = rng.normal_vec(d);
    let start: Vec<f64> = mat_vec(&f, &y0).iter().zip(&c).map(|(a, b)| a + b).collect();
    let momentum = rng.normal_vec(d);
    let step_size = rng.log_range(0.003, 1.2);
    let maxdepth = rng.int_range(1, 9) as u64;
    let max_energy_error = if rng.bool(0.3) { rng.log_range(0.05, 20.0) } else { 1000.0 };
    let opts = NutsOptions { maxdepth, max_energy_error, ..Default::default() };
    Audit { setup: Setup { target, transform, kind, step_size, start }, momentum, opts, script_seed: rng.next_u64(), seed, idx }
}

/// Verdict of the span tests: Some(true) turning, Some(false) definitely not, None degenerate.
fn span_turning(states: &BTreeMap<i64, PointParts>, a: i64, b: i64) -> Option<bool> {
    let (t, rel) = turning(&states[&a], &states[&b]);
    if rel < 1e-7 { None } else { Some(t) }
}

fn audit_outcome(report: &mut Report, a: &Audit, o: &Outcome, verbose: bool) {
    let kname = a.setup.kind_name();
    let replay = json!({"kind": "audit", "seed": a.seed, "idx": a.idx});
    let sig = |what: &str| format!("C03:audit:{kname}:{what}");
    let maxdepth = a.opts.maxdepth;
    let depth = o.depth;
    let n = o.steps.len();
    if depth > maxdepth {
        report.violation(sig("depth_above_maxdepth"), format!("depth {depth} maxdepth {maxdepth}"), replay.clone());
        return;
    }
    let main = (1usize << depth) - 1;
    if n < main || n > (1usize << (depth + 1)) - 1 {
        report.violation(sig("steps_vs_depth"), format!("{n} leapfrogs for depth {depth}"), replay.clone());
        return;
    }
    // states by index; structure of the blocks
    let mut states: BTreeMap<i64, PointParts> = BTreeMap::new();
    states.insert(0, o.init.clone());
    let (mut lo, mut hi) = (0i64, 0i64);
    let mut pos = 0usize;
    let mut blocks: Vec<(i64, i64, bool)> = vec![]; // (first index, last index, forward)
    let mut structure_ok = true;
    for j in 0..=depth {
        let len = if j < depth { 1usize << j } else { n - main };
        if len == 0 {
            break;
        }
        let first = o.steps[pos].parts.index_in_trajectory;
        let fwd = first > 0;
        let mut expect = if fwd { hi + 1 } else { lo - 1 };
        let mut from = if fwd { hi } else { lo };
        for s in &o.steps[pos..pos + len] {
            let is_last = std::ptr::eq(s, o.steps.last().unwrap());
            if s.diverged {
                if !(o.diverged && is_last && j == depth) {
                    structure_ok = false;
                }
                // the divergent end state is not part of the trajectory
                continue;
            }
            if s.parts.index_in_trajectory != expect || s.from != from {
                structure_ok = false;
            }
            states.insert(s.parts.index_in_trajectory, s.parts.clone());
            from = expect;
            expect += if fwd { 1 } else { -1 };
        }
        let last = if fwd { expect - 1 } else { expect + 1 };
        if j < depth {
            if fwd { hi = last } else { lo = last }
        }
        blocks.push((first, last, fwd));
        pos += len;
    }
    if o.diverged != o.steps.last().map(|s| s.diverged).unwrap_or(false) {
        structure_ok = false;
    }
    if !structure_ok {
        report.violation(sig("trajectory_structure"), format!("recorded leapfrogs do not form doubling blocks: depth {depth}, {n} steps, diverged {}", o.diverged), replay.clone());
        return;
    }
    // E: returned state is a state of the accepted tree
    let ri = o.returned.index_in_trajectory;
    if ri < lo || ri > hi {
        report.violation(sig("returned_state_outside_accepted_tree"), format!("returned index {ri}, accepted tree [{lo},{hi}] (depth {depth}, {n} leapfrogs)"), replay.clone());
    } else if states[&ri].position.iter().zip(&o.returned.position).any(|(x, y)| x.to_bits() != y.to_bits()) {
        report.violation(sig("returned_state_differs_from_recorded_state"), format!("index {ri}"), replay.clone());
    }
    if o.buffers_changed > 0 {
        report.violation(sig("state_buffer_changed_while_referenced"), format!("{} held states changed", o.buffers_changed), replay.clone());
    }
    let mut degenerate = false;
    // B: never later. Every accepted new subtree is free of turning balanced sub-trajectories, and the whole
    // trajectory was not turning whenever doubling continued.
    let rejected_len = n - main;
    let (mut cl, mut ch) = (0i64, 0i64);
    for (j, &(first, last, fwd)) in blocks.iter().enumerate() {
        if j as u64 >= depth {
            break;
        }
        let size = 1i64 << j;
        let start = first.min(last);
        let mut m = 1;
        while (1i64 << m) <= size {
            let bs = 1i64 << m;
            let mut off = 0;
            while off + bs <= size {
                // aligned relative to the block's first recorded state
                let (s, e) = if fwd { (first + off, first + off + bs - 1) } else { (first - off - bs + 1, first - off) };
                match span_turning(&states, s, e) {
                    Some(true) => report.violation(
                        sig("accepted_subtree_contains_u_turn"),
                        format!("level {j} subtree [{start},{}] was merged although its balanced sub-trajectory [{s},{e}] is turning", start + size - 1),
                        replay.clone(),
                    ),
                    None => degenerate = true,
                    _ => {}
                }
                off += bs;
            }
            m += 1;
        }
        if fwd { ch = last } else { cl = last }
        let continued = (j as u64) < depth - 1 || rejected_len > 0;
        if continued {
            match span_turning(&states, cl, ch) {
                Some(true) => report.violation(
                    sig("continued_past_u_turn"),
                    format!("doubling continued after level {j} although the whole trajectory [{cl},{ch}] is turning"),
                    replay.clone(),
                ),
                None => degenerate = true,
                _ => {}
            }
        }
    }
    // top-level spans of the final accepted tree
    let top_spans = |cl: i64, ch: i64| -> Vec<(i64, i64)> {
        let mut v = vec![(cl, ch)];
        if depth >= 2 {
            // split between the old tree and the last merged block (the block is the upper half when it was
            // built forward, the lower half otherwise)
            let &(first, _last, fwd) = &blocks[depth as usize - 1];
            let s = if fwd { first - 1 } else { first };
            v.push((s, ch));
            v.push((cl, s + 1));
        }
        v
    };
    let stop_turning = !o.diverged && !o.reached_maxdepth;
    if stop_turning {
        let mut any = false;
        let mut any_degenerate = false;
        if rejected_len == 0 {
            if depth == 0 {
                // cannot stop for turning without any step
                report.violation(sig("stopped_without_u_turn"), "no leapfrog, no divergence, not maxdepth".to_string(), replay.clone());
                return;
            }
            for (s, e) in top_spans(lo, hi) {
                match span_turning(&states, s, e) {
                    Some(true) => any = true,
                    None => any_degenerate = true,
                    _ => {}
                }
            }
        } else {
            // rejected (possibly partial) subtree: some balanced block or cross span inside it turned
            let &(first, _last, fwd) = blocks.last().unwrap();
            let len = rejected_len as i64;
            let idx = |off: i64| if fwd { first + off } else { first - off };
            let mut m = 1;
            while (1i64 << m) <= len {
                let bs = 1i64 << m;
                let mut off = 0;
                while off + bs <= len {
                    let mut spans = vec![(idx(off), idx(off + bs - 1))];
                    if m >= 2 {
                        let half = bs / 2;
                        spans.push((idx(off + half - 1), idx(off + bs - 1)));
                        spans.push((idx(off), idx(off + half)));
                    }
                    for (s, e) in spans {
                        let (s, e) = (s.min(e), s.max(e));
                        match span_turning(&states, s, e) {
                            Some(true) => any = true,
                            None => any_degenerate = true,
                            _ => {}
                        }
                    }
                    off += bs;
                }
                m += 1;
            }
        }
        if !any {
            if any_degenerate {
                degenerate = true;
            } else {
                report.violation(
                    sig("stopped_without_u_turn"),
                    format!("trajectory stopped at depth {depth} ({n} leapfrogs, {rejected_len} in a rejected subtree) but no checked span is turning; maxdepth {maxdepth}"),
                    replay.clone(),
                );
            }
        }
    }
    // D: maxdepth flag exactly when maxdepth was the only reason to stop
    if o.reached_maxdepth {
        if depth != maxdepth || o.diverged || rejected_len > 0 {
            report.violation(sig("maxdepth_flag_with_other_stop_reason"), format!("depth {depth} maxdepth {maxdepth} diverged {} rejected {rejected_len}", o.diverged), replay.clone());
        } else if depth >= 1 {
            for (s, e) in top_spans(lo, hi) {
                if span_turning(&states, s, e) == Some(true) {
                    report.violation(sig("maxdepth_flag_although_turning"), format!("span [{s},{e}] of the final tree is turning"), replay.clone());
                }
            }
        }
    } else if depth == maxdepth && !o.diverged && rejected_len == 0 && depth >= 1 {
        let verdicts: Vec<Option<bool>> = top_spans(lo, hi).into_iter().map(|(s, e)| span_turning(&states, s, e)).collect();
        if verdicts.iter().all(|v| *v == Some(false)) {
            report.violation(sig("maxdepth_flag_missing"), format!("depth {depth} = maxdepth, no divergence, no turning span, but maxdepth flag is false"), replay.clone());
        }
    }
    if degenerate {
        report.inconclusive("a U-turn product within 1e-7 (relative) of zero");
    }
    let mut h = Fnv::new();
    h.str(kname).u64(depth).u64(o.diverged as u64).u64(o.reached_maxdepth as u64).u64((rejected_len > 0) as u64).u64(a.setup.start.len() as u64);
    report.nontrivial(h.finish());
    report.count("audited_trajectories", 1);
    report.count("audited_leapfrogs", n as u64);
    if o.diverged {
        report.count("audited_divergent", 1);
    }
    if rejected_len > 0 {
        report.count("audited_with_rejected_subtree", 1);
    }
    if o.reached_maxdepth {
        report.count("audited_maxdepth", 1);
    }
    if verbose {
        eprintln!("depth {depth} n {n} interval [{lo},{hi}] returned {ri} diverged {} maxdepth flag {}", o.diverged, o.reached_maxdepth);
    }
}

fn run_audit(report: &mut Report, a: &Audit, verbose: bool) {
    report.eval();
    let mut srng = HRng::new(a.script_seed);
    let script: Vec<u64> = (0..4096).map(|_| srng.next_u64()).collect();
    match crate::tree::draw(&a.setup, &a.momentum, script, &a.opts, true) {
        Ok(o) => {
            if report.samples.len() < 2 {
                report.sample(json!({"audit": {"setup": a.setup.to_json(), "maxdepth": a.opts.maxdepth, "max_energy_error": a.opts.max_energy_error},
                    "observed": {"depth": o.depth, "leapfrogs": o.steps.len(), "returned_index": o.returned.index_in_trajectory, "diverged": o.diverged,
                        "reached_maxdepth": o.reached_maxdepth, "indices": o.steps.iter().map(|s| s.parts.index_in_trajectory).collect::<Vec<_>>()}}));
            }
            audit_outcome(report, a, &o, verbose)
        }
        Err(e) => {
            report.inconclusive("audit draw failed to run");
            if verbose {
                eprintln!("{e}");
            }
        }
    }
}

pub fn run(args: &Args, report: &mut Report) {
    report.rule = "histories = 6 presets x targets (iso, scaled, correlated, funnel, logistic) x dims {0,1,2,3,5,10} x random maxdepth / mindepth / \
        target_integration_time / max_energy_error / trajectory kind, num_tune 0..60 + 30 draws, every draw checked against the density log; \
        audits = single NUTS transitions (hook, scripted RNG, recording collector) with maxdepth 1..9, U-turn criterion recomputed for every \
        balanced sub-trajectory; distinct = (preset, target, dim, saw divergence / stay / update) resp. (kind, depth, stop reason, dim)".into();
    report.assumptions.push("U-turn products within 1e-7 (relative) of zero make the audited trajectory inconclusive".into());
    report.assumptions.push("the audit accepts the two symmetric cross-spans the implementation documents as additional stopping spans (never-earlier clause)".into());
    if let Some(r) = &args.replay {
        if r["kind"] == "history" {
            run_hist(report, &hist_from_json(r), true)
        } else {
            run_audit(report, &gen_audit(r["seed"].as_u64().unwrap(), r["idx"].as_u64().unwrap()), true)
        }
        return;
    }
    let seed = args.seed ^ 0xC03;
    if args.mode.as_deref() == Some("miri") {
        // tiny single-threaded workload for the interpreter: state pool recycling on all early-return paths
        for i in 0..6u64 {
            let mut h = gen_hist(seed, i);
            if h.preset.is_lowrank() {
                // faer's decompositions reach libm inline assembly, which the interpreter does not support
                h.preset = if h.preset.is_nuts() { crate::chains::Preset::DiagNuts } else { crate::chains::Preset::DiagMclmc };
            }
            h.dim = h.dim.min(3);
            h.draws = 10;
            h.patches.retain(|(p, _)| p != "num_tune" && p != "maxdepth");
            h.patches.push(("num_tune".into(), json!(6)));
            if h.preset.is_nuts() {
                h.patches.push(("maxdepth".into(), json!(3)));
            }
            run_hist(report, &h, false);
        }
        for i in 0..10u64 {
            let mut a = gen_audit(seed, i);
            if let Transform::LowRank { stds, mean, .. } = &a.setup.transform {
                a.setup.transform = Transform::Diag { stds: stds.clone(), mean: mean.clone() };
            }
            a.opts.maxdepth = a.opts.maxdepth.min(3);
            run_audit(report, &a, false);
        }
        return;
    }
    let nh = report.size(4800, 100_000);
    let na = report.size(24_000, 600_000);
    crate::report::par_run(report, nh + na, |i, rep| {
        if i < nh {
            let h = gen_hist(seed, i);
            run_hist(rep, &h, false);
            if i % 401 == 0 {
                rep.sample(hist_json(&h));
            }
        } else {
            run_audit(rep, &gen_audit(seed, i - nh), false)
        }
    });
}
