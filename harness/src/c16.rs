//! C16 — statistics schema and per-draw values are mutually consistent.

use std::collections::HashMap;

use nuts_rs::{ItemType, Value};
use serde_json::{Value as J, json};

use crate::Args;
use crate::chains::{ALL_PRESETS, DrawOut, Preset, chain_on, start_point, value_to_json};
use crate::dens::{Fault, Logged, Target};
use crate::report::Report;
use crate::util::{Fnv, HRng};

fn type_matches(t: ItemType, v: &Value) -> bool {
    matches!(
        (t, v),
        (ItemType::F64, Value::F64(_) | Value::ScalarF64(_))
            | (ItemType::F32, Value::F32(_) | Value::ScalarF32(_))
            | (ItemType::U64, Value::U64(_) | Value::ScalarU64(_))
            | (ItemType::I64, Value::I64(_) | Value::ScalarI64(_))
            | (ItemType::Bool, Value::Bool(_) | Value::ScalarBool(_))
            | (ItemType::String, Value::Strings(_) | Value::ScalarString(_))
            | (ItemType::DateTime64(_), Value::DateTime64(..))
            | (ItemType::TimeDelta64(_), Value::TimeDelta64(..))
    )
}

fn value_len(v: &Value) -> Option<usize> {
    match v {
        Value::U64(x) => Some(x.len()),
        Value::I64(x) => Some(x.len()),
        Value::F64(x) => Some(x.len()),
        Value::F32(x) => Some(x.len()),
        Value::Bool(x) => Some(x.len()),
        Value::Strings(x) => Some(x.len()),
        Value::DateTime64(_, x) => Some(x.len()),
        Value::TimeDelta64(_, x) => Some(x.len()),
        _ => None, // scalar
    }
}

#[derive(Clone, Debug)]
struct Case {
    preset: Preset,
    flags: u32,
    dim: usize,
    target: &'static str,
    seed: u64,
}

fn case_json(c: &Case) -> J {
    json!({"preset": c.preset.name(), "flags": c.flags, "dim": c.dim, "target": c.target, "seed": c.seed})
}

fn run_case(report: &mut Report, c: &Case, verbose: bool) {
    report.eval();
    let pname = c.preset.name();
    let (sg, su, st, sd, sm) =
        (c.flags & 1 != 0, c.flags & 2 != 0, c.flags & 4 != 0, c.flags & 8 != 0, c.flags & 16 != 0);
    // mostly a 30 draw warmup with transformation updates; one history in seven has no warmup at all
    let num_tune = if c.seed % 7 == 3 { 0 } else { 30 };
    let mut patches: Vec<(&str, J)> = vec![
        ("num_tune", json!(num_tune)),
        ("num_draws", json!(25)),
        ("store_gradient", json!(sg)),
        ("store_unconstrained", json!(su)),
        ("store_transformed", json!(st)),
        ("store_divergences", json!(sd)),
        ("adapt_options.mass_matrix_options.store_mass_matrix", json!(sm)),
        ("adapt_options.early_mass_matrix_switch_freq", json!(5)),
        ("adapt_options.mass_matrix_switch_freq", json!(8)),
        ("adapt_options.transform_update_freq", json!(7)),
    ];
    if c.seed % 3 == 0 && matches!(c.preset, Preset::DiagNuts | Preset::DiagMclmc) {
        // scales from the draw variance only (rarely used option of the diagonal presets)
        patches.push(("adapt_options.mass_matrix_options.use_grad_based_estimate", json!(false)));
    }
    if c.preset.is_nuts() {
        patches.push(("maxdepth", json!(5)));
        if c.target == "funnel" {
            patches.push(("max_energy_error", json!(3.0)));
        }
    } else {
        patches.push(("step_size", json!(if c.target == "funnel" { 0.9 } else { 0.3 })));
        patches.push(("momentum_decoherence_length", json!(1.5)));
        patches.push(("adapt_options.step_size_settings.adapt_options.method", json!({"Fixed": if c.target == "funnel" { 0.9 } else { 0.3 }})));
        if c.target == "funnel" {
            patches.push(("max_energy_error", json!(2.0)));
            patches.push(("dynamic_step_size", json!(c.seed % 2 == 0)));
        }
    }
    let mut trng = HRng::new(c.seed);
    let target = match c.target {
        "funnel" => Target::Funnel { k: c.dim.max(2) - 1 },
        _ => Target::scaled(&mut trng, c.dim, 30.0),
    };
    let dim = target.dim();
    let start = start_point(&target, &mut trng);
    let dens = Logged::new(target, false);
    if c.target == "faulty" {
        // non-fatal faults of every kind at seeded evaluations: divergences with NaN / infinite energy errors and with
        // density errors, next to the finite-energy ones of the funnel cases
        let kinds = [Fault::NegInfLogp, Fault::NanLogp, Fault::Recoverable, Fault::PosInfLogp, Fault::NanGrad, Fault::InfGrad];
        let only = if c.seed % 3 == 0 { None } else { Some(kinds[(c.seed / 3 % 6) as usize]) };
        let mut l = dens.log.lock().unwrap();
        let mut k = 30 + trng.below(10);
        while k < 4000 {
            l.plan.insert(k, only.unwrap_or(*trng.choose(&kinds)));
            k += 4 + trng.below(30);
        }
    }
    let faulty = c.target == "faulty";
    let replay = case_json(c);
    let (mut chain, _skipped) = chain_on(c.preset, &patches, dens, c.seed).expect("settings");
    if let Err(e) = chain.set_position(&start) {
        report.inconclusive("set_position failed");
        if verbose {
            eprintln!("set_position: {e}");
        }
        return;
    }
    let schema = chain.schema().clone();
    let types: HashMap<String, ItemType> = schema.types.iter().cloned().collect();
    let dims: HashMap<String, Vec<String>> = schema.dims.iter().cloned().collect();
    let events: HashMap<String, Option<String>> = schema.event_dims.iter().cloned().collect();
    // schema self-consistency
    if schema.names.len() != schema.types.len()
        || schema.names.len() != schema.dims.len()
        || schema.names.len() != schema.event_dims.len()
        || schema.names.iter().zip(&schema.types).any(|(a, b)| a != &b.0)
    {
        report.violation(format!("C16:{pname}:schema_lists_disagree"), "stat_names / stat_types / stat_dims_all / stat_event_dims differ in names or order", replay.clone());
    }
    {
        let mut seen = std::collections::HashSet::new();
        for n in &schema.names {
            if !seen.insert(n.clone()) {
                report.violation(format!("C16:{pname}:duplicate_stat_name:{n}"), format!("statistic {n} declared twice"), replay.clone());
            }
        }
    }
    let mut outs: Vec<DrawOut> = vec![];
    // scales of the transformation in force after every draw (hook read-back; None for the flow presets)
    let mut scales: Vec<Option<crate::chains::Scales>> = vec![chain.scales()];
    let total = 55u64;
    let mut failed_calls = 0u32;
    // indices i such that a failed call lies between draw i - 1 and draw i of `outs` (the failed call may have changed
    // the transformation without producing a draw that could carry the event)
    let mut failure_after: std::collections::HashSet<usize> = std::collections::HashSet::new();
    // one history in four re-initialises the chain in the middle (a second set_position replaces the transformation
    // between two draws)
    let reinit_at: Option<u64> = if c.seed % 4 == 1 && !faulty && dim > 0 { Some(18 + (c.seed / 4) % 12) } else { None };
    for d in 0..total {
        if reinit_at == Some(d) {
            let again: Vec<f64> = start.iter().map(|x| x * 0.5 + 0.1).collect();
            if chain.set_position(&again).is_err() {
                report.inconclusive("second set_position failed");
                break;
            }
            *scales.last_mut().unwrap() = chain.scales();
        }
        match chain.draw() {
            Ok(o) => {
                outs.push(o);
                scales.push(chain.scales());
            }
            Err(e) => {
                if faulty {
                    // an injected fault hit an evaluation the chain cannot retry (C05 / C13 territory); the failed call
                    // produced no draw: the history goes on with the next call (a few times)
                    failed_calls += 1;
                    failure_after.insert(outs.len());
                    if verbose {
                        eprintln!("draw {d}: {e}");
                    }
                    if failed_calls > 3 {
                        report.inconclusive("injected faults made several draws fail");
                        break;
                    }
                    continue;
                }
                report.violation(format!("C16:{pname}:draw_error"), format!("draw {d}: {e}"), replay.clone());
                return;
            }
        }
    }
    if outs.is_empty() {
        return;
    }
    let mut present: HashMap<String, u64> = HashMap::new();
    let mut last_announced: Option<i64> = None;
    let mut n_div = 0u64;
    let mut n_upd = 0u64;
    for (d, o) in outs.iter().enumerate() {
        let names: Vec<&String> = o.stats.iter().map(|(n, _)| n).collect();
        if names.len() != schema.names.len() || names.iter().zip(&schema.names).any(|(a, b)| *a != b) {
            report.violation(
                format!("C16:{pname}:names_differ_from_schema"),
                format!("draw {d}: get_all names {:?} vs declared {:?}", names, schema.names),
                replay.clone(),
            );
            return;
        }
        let diverging = o.progress.diverging;
        if diverging {
            n_div += 1;
        }
        let mut seen_in_draw = std::collections::HashSet::new();
        for (name, v) in &o.stats {
            let Some(v) = v else { continue };
            // a name declared twice (reported separately) is counted once per draw
            if seen_in_draw.insert(name.clone()) {
                *present.entry(name.clone()).or_default() += 1;
            }
            let t = types[name];
            if !type_matches(t, v) {
                report.violation(
                    format!("C16:{pname}:type_mismatch:{name}"),
                    format!("draw {d}: {name} declared {t:?} but value is {v:?}"),
                    replay.clone(),
                );
            }
            let want: usize = dims[name].iter().map(|dn| schema.dim_sizes.get(dn).copied().unwrap_or(u64::MAX) as usize).product();
            match value_len(v) {
                None => {
                    if !dims[name].is_empty() {
                        report.violation(
                            format!("C16:{pname}:scalar_for_dimensioned_stat:{name}"),
                            format!("draw {d}: {name} has dims {:?} but a scalar value", dims[name]),
                            replay.clone(),
                        );
                    }
                }
                Some(len) => {
                    if dims[name].is_empty() || len != want {
                        report.violation(
                            format!("C16:{pname}:length_mismatch:{name}"),
                            format!("draw {d}: {name} has length {len}, declared dims {:?} = {want} (dim {dim})", dims[name]),
                            replay.clone(),
                        );
                    }
                }
            }
            // event statistics only on event draws
            match events[name].as_deref() {
                Some("divergence") => {
                    if !diverging {
                        report.violation(
                            format!("C16:{pname}:divergence_field_on_non_divergent_draw:{name}"),
                            format!("draw {d}: {name} present but Progress.diverging = false"),
                            replay.clone(),
                        );
                    }
                }
                Some("transformation_update") => {
                    if o.stat("transformation_update_id").is_none() {
                        report.violation(
                            format!("C16:{pname}:update_field_without_update_id:{name}"),
                            format!("draw {d}: {name} present without transformation_update_id"),
                            replay.clone(),
                        );
                    }
                }
                _ => {}
            }
        }
        // identifying fields on every event draw
        if let Some(b) = o.bool("diverging") {
            if b != diverging {
                report.violation(format!("C16:{pname}:diverging_stat_vs_progress"), format!("draw {d}: stat diverging={b} progress={diverging}"), replay.clone());
            }
        }
        for idf in ["divergence_draw", "divergence_message"] {
            if types.contains_key(idf) && (o.stat(idf).is_some() != diverging) {
                report.violation(
                    format!("C16:{pname}:identifying_field_presence:{idf}"),
                    format!("draw {d}: {idf} present={} but diverging={diverging}", o.stat(idf).is_some()),
                    replay.clone(),
                );
            }
        }
        // store_divergences option controls the detail fields
        if diverging && !sd {
            for f in ["divergence_start", "divergence_start_gradient", "divergence_end", "divergence_momentum"] {
                if o.stat(f).is_some() {
                    report.violation(format!("C16:{pname}:divergence_detail_when_switched_off:{f}"), format!("draw {d}"), replay.clone());
                }
            }
        }
        // every transformation a draw starts from was announced by an update event: on an earlier draw or, when it was
        // installed between two draws (set_position), on this draw at the latest
        if let (Some(index), false) = (o.i64("transformation_index"), c.preset.is_flow()) {
            let event = o.i64("transformation_update_id");
            if last_announced != Some(index) && event.is_none() {
                report.violation(
                    format!("C16:{pname}:transformation_never_announced"),
                    format!("draw {d} started from transformation {index}, the last announced one is {last_announced:?}, and the draw carries no transformation_update event (re-initialised before draw {reinit_at:?})"),
                    replay.clone(),
                );
            }
            if event.is_some() {
                last_announced = event;
            }
        }
        // transformation update events <=> the next trajectory runs with another transformation
        if d >= 1 && d + 1 < outs.len() && types.contains_key("transformation_update_id") && reinit_at != Some(d as u64 + 1) && reinit_at != Some(d as u64) && !failure_after.contains(&(d + 1)) && !failure_after.contains(&d) {
            let (a, b) = (o.i64("transformation_index"), outs[d + 1].i64("transformation_index"));
            let upd = o.i64("transformation_update_id");
            if upd.is_some() {
                n_upd += 1;
            }
            if let (Some(a), Some(b)) = (a, b) {
                if (a != b) != upd.is_some() {
                    report.violation(
                        format!("C16:{pname}:update_event_vs_transformation_change"),
                        format!("draw {d}: transformation_index {a} -> {b} but update event present={}", upd.is_some()),
                        replay.clone(),
                    );
                }
                if let Some(u) = upd {
                    if u != b {
                        report.violation(
                            format!("C16:{pname}:update_id_value"),
                            format!("draw {d}: transformation_update_id={u} but next trajectory uses {b}"),
                            replay.clone(),
                        );
                    }
                }
            }
            // independent of the ids: if the scales differ after this draw, the draw must carry the event
            if let (Some(Some(s0)), Some(Some(s1))) = (scales.get(d), scales.get(d + 1)) {
                let same = |a: &[f64], b: &[f64]| a.len() == b.len() && a.iter().zip(b).all(|(x, y)| x.to_bits() == y.to_bits());
                let changed = !(same(&s0.stds, &s1.stds) && same(&s0.mean, &s1.mean) && same(&s0.eig_sqrt, &s1.eig_sqrt) && same(&s0.inner_mu, &s1.inner_mu));
                if changed && upd.is_none() {
                    report.violation(
                        format!("C16:{pname}:scales_changed_without_update_event"),
                        format!("draw {d}: the scales of the transformation changed (stds {:?} -> {:?}) but the draw carries no transformation_update event", s0.stds, s1.stds),
                        replay.clone(),
                    );
                }
            }
            if upd.is_some() && !c.preset.is_flow() {
                // mass-matrix payload follows the option
                for f in ["mass_matrix_inv", "transformation_mu", "mass_matrix_stds"] {
                    if types.contains_key(f) && (o.stat(f).is_some() != sm) {
                        report.violation(
                            format!("C16:{pname}:mass_matrix_payload_vs_option:{f}"),
                            format!("draw {d}: {f} present={} store_mass_matrix={sm}", o.stat(f).is_some()),
                            replay.clone(),
                        );
                    }
                }
            }
        }
        // counters
        if d >= 1 {
            if let (Some(a), Some(b)) = (outs[d - 1].u64("draw"), o.u64("draw")) {
                if b != a + 1 {
                    report.violation(format!("C16:{pname}:draw_counter"), format!("draw stat {a} -> {b}"), replay.clone());
                }
            }
            if outs[d - 1].u64("chain") != o.u64("chain") {
                report.violation(format!("C16:{pname}:chain_id_changed"), format!("draw {d}"), replay.clone());
            }
            if o.progress.draw != outs[d - 1].progress.draw + 1 {
                report.violation(format!("C16:{pname}:progress_draw_counter"), format!("draw {d}"), replay.clone());
            }
        }
    }
    // non-event statistics: on every draw or on none, following their option
    let n = outs.len() as u64;
    for name in &schema.names {
        if events[name].is_some() {
            continue;
        }
        let cnt = present.get(name).copied().unwrap_or(0);
        if cnt != 0 && cnt != n {
            report.violation(
                format!("C16:{pname}:non_event_stat_sometimes_missing:{name}"),
                format!("{name} present on {cnt} of {n} draws"),
                replay.clone(),
            );
        }
        let opt = match name.as_str() {
            "gradient" => Some(sg),
            "unconstrained_draw" => Some(su),
            "transformed_position" | "transformed_gradient" => Some(st),
            _ => None,
        };
        match opt {
            Some(on) => {
                if (cnt == n) != on {
                    report.violation(
                        format!("C16:{pname}:stat_presence_vs_option:{name}"),
                        format!("{name} present on {cnt}/{n} draws but its option is {on}"),
                        replay.clone(),
                    );
                }
            }
            None => {
                if cnt != n {
                    report.violation(
                        format!("C16:{pname}:unconditional_stat_missing:{name}"),
                        format!("{name} present on {cnt}/{n} draws"),
                        replay.clone(),
                    );
                }
            }
        }
    }
    let mut h = Fnv::new();
    h.str(pname).u64(c.flags as u64).u64(c.dim as u64).u64(n_div.min(2)).u64(n_upd.min(2));
    report.nontrivial(h.finish());
    report.count("draws_observed", n);
    report.count("divergent_draws", n_div);
    report.count("transformation_update_events", n_upd);
    report.count("statistics_checked", n * schema.names.len() as u64);
    if report.samples.len() < 2 && n_div > 0 {
        let o = outs.iter().find(|o| o.progress.diverging).unwrap();
        report.sample(json!({"case": replay, "divergent_draw_stats": o.stats.iter().map(|(n, v)| json!([n, v.as_ref().map(value_to_json)])).collect::<Vec<_>>()}));
    }
    if verbose {
        eprintln!("divergences {n_div} updates {n_upd}");
    }
}

pub fn run(args: &Args, report: &mut Report) {
    report.rule = "cases = 6 presets x 32 option sets (store_gradient/unconstrained/transformed/divergences/mass_matrix) x dims \
        {0,1,3,17} (MCLMC: {2,3,17}) x target (scaled Gaussian; funnel with a tight energy limit for divergences; Gaussian with injected NaN / +-inf logp, \
        NaN / inf gradients and recoverable errors for divergences without a finite energy error), 55 draws each \
        through warmup with transformation updates; distinct = (preset, flags, dim, saw divergence, saw update)".into();
    if let Some(r) = &args.replay {
        let c = Case {
            preset: Preset::from_name(r["preset"].as_str().unwrap()).unwrap(),
            flags: r["flags"].as_u64().unwrap() as u32,
            dim: r["dim"].as_u64().unwrap() as usize,
            target: match r["target"].as_str().unwrap() {
                "funnel" => "funnel",
                "faulty" => "faulty",
                _ => "scaled",
            },
            seed: r["seed"].as_u64().unwrap(),
        };
        run_case(report, &c, true);
        return;
    }
    let mut cases = vec![];
    let reps = report.size(3, 500);
    let mut rng = HRng::new(args.seed ^ 0xC16);
    for &preset in ALL_PRESETS.iter() {
        for flags in 0..32u32 {
            let dims: &[usize] = if preset.is_nuts() { &[0, 1, 3, 17] } else { &[2, 3, 17] };
            for &dim in dims {
                for target in ["scaled", "funnel", "faulty"] {
                    if (target == "funnel" && dim < 2) || (target == "faulty" && dim == 0) {
                        continue;
                    }
                    for _ in 0..reps {
                        cases.push(Case { preset, flags, dim, target, seed: rng.next_u64() });
                    }
                }
            }
        }
    }
    crate::report::par_run(report, cases.len() as u64, |i, rep| run_case(rep, &cases[i as usize], false));
    report.exhaustive = true;
}
