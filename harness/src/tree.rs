//! Drive the hook-exported `nuts::draw` / `Hamiltonian::leapfrog` on a `TransformedHamiltonian`
//! with explicit transformation parameters, scripted momentum and scripted RNG, recording every
//! visited state.

use nuts_rs::verif::{
    Collector, DiagMassMatrix, Direction, Hamiltonian, LeapfrogResult, LowRankMassMatrix, NutsOptions, Point,
    PointParts, SampleInfo, State, TransformedHamiltonian, TransformedPoint, Transformation, diag_new,
    diag_set_transform, nuts_draw, point_parts,
};
use nuts_rs::{DivergenceInfo, KineticEnergyKind, LowRankSettings, Math};

use crate::chains::SM;
use crate::dens::{Logged, Target};
use crate::script::{ReqKind, ScriptMath, ScriptRng};
use crate::util::{HRng, Mat, mat_zeros};

#[derive(Clone, Debug)]
pub enum Transform {
    Diag { stds: Vec<f64>, mean: Vec<f64> },
    /// x = stds * ((I + U (diag(sqrt(vals)) - I) U^T) y + mu_inner) + mean
    LowRank { stds: Vec<f64>, mean: Vec<f64>, vals: Vec<f64>, vecs: Vec<Vec<f64>>, mu_inner: Vec<f64> },
}

impl Transform {
    pub fn dim(&self) -> usize {
        match self {
            Transform::Diag { stds, .. } => stds.len(),
            Transform::LowRank { stds, .. } => stds.len(),
        }
    }
    pub fn name(&self) -> &'static str {
        match self {
            Transform::Diag { .. } => "diag",
            Transform::LowRank { .. } => "lowrank",
        }
    }
    /// Dense F and offset c with x = F y + c.
    pub fn dense(&self) -> (Mat, Vec<f64>) {
        match self {
            Transform::Diag { stds, mean } => {
                let d = stds.len();
                let mut f = mat_zeros(d, d);
                for i in 0..d {
                    f[i][i] = stds[i];
                }
                (f, mean.clone())
            }
            Transform::LowRank { stds, mean, vals, vecs, mu_inner } => {
                let d = stds.len();
                let mut a = crate::util::mat_eye(d);
                for (k, u) in vecs.iter().enumerate() {
                    let s = vals[k].sqrt() - 1.0;
                    for i in 0..d {
                        for j in 0..d {
                            a[i][j] += u[i] * s * u[j];
                        }
                    }
                }
                let mut f = mat_zeros(d, d);
                for i in 0..d {
                    for j in 0..d {
                        f[i][j] = stds[i] * a[i][j];
                    }
                }
                let c: Vec<f64> = (0..d).map(|i| stds[i] * mu_inner[i] + mean[i]).collect();
                (f, c)
            }
        }
    }

    pub fn random(rng: &mut HRng, d: usize, lowrank: bool) -> Transform {
        let stds: Vec<f64> = (0..d).map(|_| rng.log_range(0.05, 20.0)).collect();
        let mean: Vec<f64> = (0..d).map(|_| rng.range(-2.0, 2.0)).collect();
        if !lowrank {
            return Transform::Diag { stds, mean };
        }
        let rank = rng.below(d as u64 + 1) as usize;
        let vecs = crate::util::random_orthonormal(rng, d, rank);
        let vals: Vec<f64> = (0..rank).map(|_| rng.log_range(0.05, 20.0)).collect();
        let mu_inner: Vec<f64> = (0..d).map(|_| rng.range(-1.0, 1.0)).collect();
        Transform::LowRank { stds, mean, vals, vecs, mu_inner }
    }

    pub fn to_json(&self) -> serde_json::Value {
        match self {
            Transform::Diag { stds, mean } => serde_json::json!({"kind": "diag", "stds": stds, "mean": mean}),
            Transform::LowRank { stds, mean, vals, vecs, mu_inner } => {
                serde_json::json!({"kind": "lowrank", "stds": stds, "mean": mean, "vals": vals, "vecs": vecs, "mu_inner": mu_inner})
            }
        }
    }
}

#[derive(Clone, Debug)]
pub struct StepRec {
    pub parts: PointParts,
    pub diverged: bool,
    /// index of the start state of this leapfrog
    pub from: i64,
}

/// Collector that records every leapfrog.
pub struct Recorder {
    pub init: Option<PointParts>,
    pub steps: Vec<StepRec>,
    pub draw_registered: Option<(i64, u64, bool, bool)>,
    /// cloned state handles with the hash of their contents at record time
    pub held: Vec<(State<SM, TransformedPoint<SM>>, u64)>,
    pub hold_states: bool,
}

impl Recorder {
    pub fn new(hold_states: bool) -> Self {
        Recorder { init: None, steps: vec![], draw_registered: None, held: vec![], hold_states }
    }
}

pub fn parts_hash(p: &PointParts) -> u64 {
    let mut h = crate::util::Fnv::new();
    h.f64s(&p.position).f64s(&p.gradient).f64s(&p.transformed_position).f64s(&p.transformed_gradient).f64s(&p.velocity);
    h.u64(p.index_in_trajectory as u64).f64(p.logp).f64(p.kinetic_energy);
    h.finish()
}

impl Collector<SM, TransformedPoint<SM>> for Recorder {
    fn register_leapfrog(
        &mut self,
        math: &mut SM,
        start: &State<SM, TransformedPoint<SM>>,
        end: &State<SM, TransformedPoint<SM>>,
        divergence_info: Option<&DivergenceInfo>,
    ) {
        let parts = point_parts(math, end.point());
        if self.hold_states && divergence_info.is_none() {
            self.held.push((end.clone(), parts_hash(&parts)));
        }
        self.steps.push(StepRec { parts, diverged: divergence_info.is_some(), from: start.index_in_trajectory() });
    }
    fn register_draw(&mut self, _math: &mut SM, state: &State<SM, TransformedPoint<SM>>, info: &SampleInfo) {
        self.draw_registered =
            Some((state.index_in_trajectory(), info.depth, info.reached_maxdepth, info.divergence_info.is_some()));
    }
    fn register_init(&mut self, math: &mut SM, state: &State<SM, TransformedPoint<SM>>, _o: &NutsOptions) {
        let parts = point_parts(math, state.point());
        if self.hold_states {
            self.held.push((state.clone(), parts_hash(&parts)));
        }
        self.init = Some(parts);
    }
}

#[derive(Clone, Debug)]
pub struct Setup {
    pub target: Target,
    pub transform: Transform,
    pub kind: KineticEnergyKind,
    pub step_size: f64,
    pub start: Vec<f64>,
}

#[derive(Debug)]
pub struct Outcome {
    pub init: PointParts,
    pub steps: Vec<StepRec>,
    pub returned: PointParts,
    pub depth: u64,
    pub reached_maxdepth: bool,
    pub diverged: bool,
    pub rng_log: Vec<(ReqKind, u64)>,
    pub min_rel_turn: f64,
    pub n_turn_checks: u64,
    pub n_gaussian: u64,
    pub buffers_changed: usize,
    pub density_evals: u64,
}

fn kind_name(k: KineticEnergyKind) -> &'static str {
    match k {
        KineticEnergyKind::Euclidean => "euclidean",
        KineticEnergyKind::ExactNormal => "exact_normal",
        KineticEnergyKind::Microcanonical => "microcanonical",
    }
}

impl Setup {
    pub fn kind_name(&self) -> &'static str {
        kind_name(self.kind)
    }
    pub fn to_json(&self) -> serde_json::Value {
        serde_json::json!({"target": format!("{:?}", self.target), "transform": self.transform.to_json(),
            "kind": self.kind_name(), "step_size": self.step_size, "start": self.start})
    }
}

/// Build the math object and run `f` with a hamiltonian using the explicit transformation.
pub fn with_hamiltonian<R>(
    setup: &Setup,
    f: &mut dyn FnMut(&mut SM, &mut dyn HamDyn) -> R,
) -> R {
    let mut math: SM = ScriptMath::new(Logged::new(setup.target.clone(), false));
    match &setup.transform {
        Transform::Diag { stds, mean } => {
            let mut t = diag_new(&mut math, false);
            diag_set_transform(&mut math, &mut t, stds, mean);
            let mut h = TransformedHamiltonian::new(&mut math, t, setup.kind);
            *h.step_size_mut() = setup.step_size;
            f(&mut math, &mut h)
        }
        Transform::LowRank { stds, mean, vals, vecs, mu_inner } => {
            let mut t = LowRankMassMatrix::new(&mut math, LowRankSettings::default());
            t.verif_set(&mut math, stds, mean, vals, vecs, mu_inner);
            let mut h = TransformedHamiltonian::new(&mut math, t, setup.kind);
            *h.step_size_mut() = setup.step_size;
            f(&mut math, &mut h)
        }
    }
}

/// Object safe view of a `TransformedHamiltonian<SM, T>`.
pub trait HamDyn {
    fn draw(
        &mut self,
        math: &mut SM,
        start: &[f64],
        momentum: &[f64],
        script: Vec<u64>,
        opts: &NutsOptions,
        hold_states: bool,
    ) -> Result<Outcome, String>;

    /// One leapfrog from (start, momentum) in the given direction; returns (init, end or divergence).
    fn leapfrog(
        &mut self,
        math: &mut SM,
        start: &[f64],
        momentum: &[f64],
        forward: bool,
        max_energy_error: f64,
    ) -> Result<(PointParts, Option<PointParts>), String>;

    /// init_state at x (whitened coordinates etc.) without a trajectory
    fn init_parts(&mut self, math: &mut SM, x: &[f64]) -> Result<PointParts, String>;

    fn set_step_size(&mut self, eps: f64);

    /// Run the real initial step size search (`stepsize::Strategy::init`) with a scripted momentum;
    /// returns the step size it leaves in the hamiltonian and the number of density evaluations.
    fn stepsize_search(
        &mut self,
        math: &mut SM,
        settings: nuts_rs::StepSizeSettings,
        position: &[f64],
        momentum: &[f64],
    ) -> Result<(f64, u64), String>;
}

impl<T: Transformation<SM>> HamDyn for TransformedHamiltonian<SM, T> {
    fn draw(
        &mut self,
        math: &mut SM,
        start: &[f64],
        momentum: &[f64],
        script: Vec<u64>,
        opts: &NutsOptions,
        hold_states: bool,
    ) -> Result<Outcome, String> {
        let evals0 = math.inner_evals();
        let mut st = self.init_state(math, start).map_err(|e| format!("init_state: {e}"))?;
        math.fixed_momentum = Some(momentum.to_vec());
        math.log.min_abs_turn = f64::INFINITY;
        math.track_turns = true;
        let g0 = math.log.n_gaussian;
        let t0 = math.log.n_turn;
        let mut rng = ScriptRng::new(script);
        let mut rec = Recorder::new(hold_states);
        let r = nuts_draw(math, &mut st, &mut rng, self, opts, &mut rec);
        math.fixed_momentum = None;
        math.track_turns = false;
        let (out, info) = r.map_err(|e| format!("draw: {e}"))?;
        let returned = point_parts(math, out.point());
        let mut changed = 0;
        for (s, h) in &rec.held {
            if parts_hash(&point_parts(math, s.point())) != *h {
                changed += 1;
            }
        }
        Ok(Outcome {
            init: rec.init.clone().ok_or("register_init not called")?,
            steps: rec.steps,
            returned,
            depth: info.depth,
            reached_maxdepth: info.reached_maxdepth,
            diverged: info.divergence_info.is_some(),
            rng_log: rng.log,
            min_rel_turn: math.log.min_abs_turn,
            n_turn_checks: math.log.n_turn - t0,
            n_gaussian: math.log.n_gaussian - g0,
            buffers_changed: changed,
            density_evals: math.inner_evals() - evals0,
        })
    }

    fn leapfrog(
        &mut self,
        math: &mut SM,
        start: &[f64],
        momentum: &[f64],
        forward: bool,
        max_energy_error: f64,
    ) -> Result<(PointParts, Option<PointParts>), String> {
        let mut st = self.init_state(math, start).map_err(|e| format!("init_state: {e}"))?;
        math.fixed_momentum = Some(momentum.to_vec());
        let mut rng = ScriptRng::new(vec![]);
        self.initialize_trajectory(math, &mut st, true, &mut rng).map_err(|e| format!("initialize_trajectory: {e}"))?;
        math.fixed_momentum = None;
        let init = point_parts(math, st.point());
        let mut rec = Recorder::new(false);
        let dir = if forward { Direction::Forward } else { Direction::Backward };
        let base = st.point().initial_energy();
        match Hamiltonian::leapfrog(self, math, &st, dir, 1.0, base, max_energy_error, &mut rec) {
            LeapfrogResult::Ok(end) => Ok((init, Some(point_parts(math, end.point())))),
            LeapfrogResult::Divergence(_) => Ok((init, None)),
            LeapfrogResult::Err(e) => Err(format!("leapfrog error: {e}")),
        }
    }

    fn init_parts(&mut self, math: &mut SM, x: &[f64]) -> Result<PointParts, String> {
        let st = self.init_state(math, x).map_err(|e| format!("init_state: {e}"))?;
        Ok(point_parts(math, st.point()))
    }

    fn set_step_size(&mut self, eps: f64) {
        *self.step_size_mut() = eps;
    }

    fn stepsize_search(
        &mut self,
        math: &mut SM,
        settings: nuts_rs::StepSizeSettings,
        position: &[f64],
        momentum: &[f64],
    ) -> Result<(f64, u64), String> {
        let mut strategy = nuts_rs::verif::StepSizeStrategy::new(settings);
        let mut opts = NutsOptions::default();
        let mut rng = ScriptRng::new(vec![]);
        math.fixed_momentum = Some(momentum.to_vec());
        let e0 = math.inner_evals();
        let r = strategy.init(math, &mut opts, self, position, &mut rng);
        math.fixed_momentum = None;
        r.map_err(|e| format!("step size search failed: {e}"))?;
        Ok((self.step_size(), math.inner_evals() - e0))
    }
}

/// Convenience: a complete draw for a setup.
pub fn draw(setup: &Setup, momentum: &[f64], script: Vec<u64>, opts: &NutsOptions, hold: bool) -> Result<Outcome, String> {
    with_hamiltonian(setup, &mut |math, h| h.draw(math, &setup.start, momentum, script.clone(), opts, hold))
}

// ── U-turn criterion recomputed by the harness ─────────────────────────────

/// (turning?, smallest |product| relative to operand magnitude)
pub fn turning(a: &PointParts, b: &PointParts) -> (bool, f64) {
    let (s, e) = if a.index_in_trajectory < b.index_in_trajectory { (a, b) } else { (b, a) };
    let d = s.transformed_position.len();
    let mut t1 = 0.0;
    let mut t2 = 0.0;
    let mut nd = 0.0;
    let mut nv1 = 0.0;
    let mut nv2 = 0.0;
    for i in 0..d {
        let rho = e.transformed_position[i] - s.transformed_position[i];
        t1 += rho * s.velocity[i];
        t2 += rho * e.velocity[i];
        nd += rho * rho;
        nv1 += s.velocity[i] * s.velocity[i];
        nv2 += e.velocity[i] * e.velocity[i];
    }
    let rel = (t1.abs() / (nd.sqrt() * nv1.sqrt()).max(1e-300)).min(t2.abs() / (nd.sqrt() * nv2.sqrt()).max(1e-300));
    ((t1 < 0.0) | (t2 < 0.0), rel)
}
