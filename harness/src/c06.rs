//! C06 — warmup ends exactly at num_tune and the kernel is frozen afterwards.

use std::panic::{AssertUnwindSafe, catch_unwind};

use serde_json::{Value as J, json};

use crate::Args;
use crate::chains::{ALL_PRESETS, DynChain, Preset, chain_on, get_path, start_point};
use crate::dens::{Logged, Target};
use crate::report::Report;
use crate::util::{Fnv, HRng};

#[derive(Clone, Debug)]
pub struct Config {
    pub preset: Preset,
    pub num_tune: u64,
    pub post: u64,
    pub patches: Vec<(String, J)>,
    pub target: &'static str,
    pub seed: u64,
}

fn gen_config(rng: &mut HRng, preset: Preset, num_tune: u64, idx: u64) -> Config {
    let mut patches: Vec<(String, J)> = vec![
        ("num_tune".into(), json!(num_tune)),
        ("num_draws".into(), json!(30)),
    ];
    let so = "adapt_options.step_size_settings";
    // step size method (MCLMC presets override the method with Fixed(step_size))
    // FlowMclmc does not override the method; an adaptive method lets the step size collapse and a draw
    // take up to 1e6 steps, so that preset is only run with a fixed step size (cost, not a property)
    let m = if preset == Preset::FlowMclmc { 2 } else { rng.below(3) };
    match m {
        0 => patches.push((format!("{so}.adapt_options.method"), json!("DualAverage"))),
        1 => patches.push((format!("{so}.adapt_options.method"), json!("Adam"))),
        _ => patches.push((format!("{so}.adapt_options.method"), json!({"Fixed": rng.log_range(0.05, 0.8)}))),
    }
    match rng.below(3) {
        0 => patches.push((format!("{so}.jitter"), J::Null)),
        1 => patches.push((format!("{so}.jitter"), json!(0.1))),
        _ => patches.push((format!("{so}.jitter"), json!(0.5))),
    }
    if rng.bool(0.5) {
        patches.push((format!("{so}.target_accept"), json!(rng.range(0.55, 0.95))));
    }
    if rng.bool(0.7) {
        patches.push(("adapt_options.step_size_window".into(), json!(rng.range(0.0, 0.6))));
    }
    if !preset.is_flow() {
        if rng.bool(0.7) {
            patches.push(("adapt_options.early_window".into(), json!(rng.range(0.0, 0.8))));
        }
        if rng.bool(0.7) {
            patches.push(("adapt_options.mass_matrix_switch_freq".into(), json!(rng.int_range(1, 60))));
        }
        if rng.bool(0.7) {
            patches.push(("adapt_options.early_mass_matrix_switch_freq".into(), json!(rng.int_range(1, 20))));
        }
        if rng.bool(0.7) {
            patches.push(("adapt_options.mass_matrix_update_freq".into(), json!(rng.int_range(1, 25))));
        }
        if rng.bool(0.7) {
            patches.push(("adapt_options.mass_matrix_window_growth".into(), json!(rng.range(1.0, 2.5))));
        }
    } else if rng.bool(0.7) {
        patches.push(("adapt_options.transform_update_freq".into(), json!(rng.int_range(1, 40))));
    }
    if preset.is_nuts() {
        patches.push(("maxdepth".into(), json!(rng.int_range(2, 6))));
    } else {
        patches.push(("step_size".into(), json!(rng.log_range(0.05, 0.6))));
        patches.push(("momentum_decoherence_length".into(), json!(rng.range(0.5, 3.0))));
        patches.push(("subsample_frequency".into(), json!(rng.range(0.2, 1.0))));
    }
    let target = *rng.choose(&["iso", "scaled", "funnel"]);
    if target == "funnel" && preset.is_nuts() && rng.bool(0.5) {
        patches.push(("max_energy_error".into(), json!(rng.log_range(0.5, 50.0))));
    }
    Config { preset, num_tune, post: 30, patches, target, seed: rng.next_u64() ^ idx }
}

fn make_target(name: &str, rng: &mut HRng) -> Target {
    match name {
        "iso" => Target::iso(3, 0.5),
        "scaled" => Target::scaled(rng, 4, 100.0),
        _ => Target::Funnel { k: 2 },
    }
}

fn cfg_json(c: &Config) -> J {
    json!({"preset": c.preset.name(), "num_tune": c.num_tune, "post": c.post, "target": c.target, "seed": c.seed,
        "patches": c.patches.iter().map(|(p, v)| json!([p, v])).collect::<Vec<_>>()})
}

fn cfg_from_json(j: &J) -> Config {
    Config {
        preset: Preset::from_name(j["preset"].as_str().unwrap()).unwrap(),
        num_tune: j["num_tune"].as_u64().unwrap(),
        post: j["post"].as_u64().unwrap(),
        target: match j["target"].as_str().unwrap() {
            "iso" => "iso",
            "scaled" => "scaled",
            _ => "funnel",
        },
        seed: j["seed"].as_u64().unwrap(),
        patches: j["patches"].as_array().unwrap().iter().map(|e| (e[0].as_str().unwrap().to_string(), e[1].clone())).collect(),
    }
}

pub fn run_config(report: &mut Report, c: &Config, verbose: bool) {
    report.eval();
    let mut trng = HRng::new(c.seed);
    let target = make_target(c.target, &mut trng);
    let start = start_point(&target, &mut trng);
    let dens = Logged::new(target, false);
    let mut patches: Vec<(&str, J)> = c.patches.iter().map(|(p, v)| (p.as_str(), v.clone())).collect();
    if c.seed % 3 == 0 && !c.preset.is_nuts() {
        // the configurations with a forced divergence next to the end of warmup: a failed step must end the draw
        // instead of being retried with a smaller step
        patches.push(("dynamic_step_size", json!(false)));
    }
    let replay = cfg_json(c);
    let pname = c.preset.name();

    // construction and initialisation must not panic for any num_tune >= 0
    let built = catch_unwind(AssertUnwindSafe(|| {
        let (mut chain, _skipped) = chain_on(c.preset, &patches, dens.clone(), c.seed).expect("settings deserialise");
        let r = chain.set_position(&start);
        (chain, r)
    }));
    let (mut chain, init) = match built {
        Ok(v) => v,
        Err(p) => {
            let msg = panic_msg(&p);
            let class = if c.num_tune == 0 { "num_tune_0" } else { "num_tune_pos" };
            report.violation(
                format!("C06:{pname}:construct_panic:{class}"),
                format!("building the chain / set_position panicked: {msg}"),
                replay,
            );
            return;
        }
    };
    if let Err(e) = init {
        report.inconclusive("set_position returned Err");
        if verbose {
            eprintln!("set_position err: {e}");
        }
        return;
    }
    let settings = chain.settings_json().clone();
    let jitter = get_path(&settings, "adapt_options.step_size_settings.jitter").and_then(|v| v.as_f64());
    let ssw = get_path(&settings, "adapt_options.step_size_window").and_then(|v| v.as_f64()).unwrap_or(0.0);
    let nt = c.num_tune;
    // from this draw index on adaptation leaves the transformation alone: the same floating point expression as the
    // strategy uses (flow: floor(num_tune * (1 - window)); others: num_tune - trunc(window * num_tune))
    let frozen_from = if c.preset.is_flow() { ((nt as f64) * (1.0 - ssw)).floor() as u64 } else { nt.saturating_sub((ssw * nt as f64) as u64) };
    // one configuration in three forces a divergence (recoverable density error at the first leapfrog) on a draw next
    // to the end of warmup: num_tune - 1, num_tune or num_tune + 1
    let forced_divergence_at: Option<u64> = if c.seed % 3 == 0 { Some((nt + (c.seed / 3) % 3).saturating_sub(1)) } else { None };
    let mut last_tid: Option<i64> = None;
    let mut bar_ref: Option<f64> = None;
    let mut n_div = 0u64;
    let mut n_updates = 0u64;
    let total = nt + c.post;
    let mut h = Fnv::new();
    h.str(pname).u64(nt);
    for d in 0..total {
        if forced_divergence_at == Some(d) {
            let k = dens.evals();
            dens.log.lock().unwrap().plan.insert(k, crate::dens::Fault::Recoverable);
        }
        let out = match catch_unwind(AssertUnwindSafe(|| chain.draw())) {
            Ok(Ok(o)) => o,
            Ok(Err(e)) => {
                report.violation(format!("C06:{pname}:draw_error"), format!("draw {d} returned Err: {e}"), replay.clone());
                return;
            }
            Err(p) => {
                report.violation(
                    format!("C06:{pname}:draw_panic"),
                    format!("draw {d} panicked: {}", panic_msg(&p)),
                    replay.clone(),
                );
                return;
            }
        };
        let want_tuning = d < nt;
        if out.progress.tuning != want_tuning {
            report.violation(
                format!("C06:{pname}:progress_tuning_flag"),
                format!("draw {d} of num_tune={nt}: Progress.tuning={} expected {}", out.progress.tuning, want_tuning),
                replay.clone(),
            );
        }
        if let Some(t) = out.bool("tuning") {
            if t != want_tuning {
                report.violation(
                    format!("C06:{pname}:stat_tuning_flag"),
                    format!("draw {d} of num_tune={nt}: stat tuning={t} expected {want_tuning}"),
                    replay.clone(),
                );
            }
        }
        if out.progress.draw != d {
            report.violation(
                format!("C06:{pname}:progress_draw_counter"),
                format!("draw {d}: Progress.draw={}", out.progress.draw),
                replay.clone(),
            );
        }
        if out.position.iter().any(|x| !x.is_finite()) {
            report.violation(format!("C06:{pname}:nonfinite_position"), format!("draw {d}"), replay.clone());
        }
        if out.progress.diverging {
            n_div += 1;
        }
        // transformation frozen
        let tid = out.i64("transformation_index");
        let upd = out.stat("transformation_update_id").is_some();
        if upd {
            n_updates += 1;
        }
        if d >= frozen_from {
            // a change of the index seen at draw d was made by the adaptation after draw d - 1
            if let (Some(a), Some(b), true) = (last_tid, tid, d > frozen_from) {
                if a != b {
                    report.violation(
                        format!("C06:{pname}:transformation_changed_in_final_window"),
                        format!("draw {d} (num_tune={nt}, step_size_window={ssw}, frozen from {frozen_from}): transformation_index {a} -> {b}"),
                        replay.clone(),
                    );
                }
            }
            // (the event on draw 0 announces the initial transformation, it is not a change)
            if upd && d >= frozen_from && d > 0 {
                report.violation(
                    format!("C06:{pname}:transformation_update_event_in_final_window"),
                    format!("draw {d} (num_tune={nt}, frozen from {frozen_from}) carries a transformation_update event"),
                    replay.clone(),
                );
            }
        }
        last_tid = tid.or(last_tid);
        // base step size constant after warmup
        let bar = out.f64("step_size_bar");
        let step_stat = out.f64("step_size");
        if d + 1 >= nt {
            if let Some(b) = bar {
                match bar_ref {
                    None => bar_ref = Some(b),
                    Some(r) => {
                        if r.to_bits() != b.to_bits() {
                            report.violation(
                                format!("C06:{pname}:step_size_bar_changed_after_warmup"),
                                format!("draw {d} (num_tune={nt}): step_size_bar {r:e} -> {b:e}"),
                                replay.clone(),
                            );
                            bar_ref = Some(b);
                        }
                    }
                }
            }
        }
        // the `step_size` statistic is read after adaptation: from draw num_tune-1 on it is the step of a
        // post-warmup trajectory. Progress.step_size of MCLMC chains is the step of the draw just made.
        if d + 1 >= nt {
            if let Some(b) = bar_ref {
                for (which, s) in [("progress", if d >= nt { Some(out.progress.step_size) } else { None }), ("stat", step_stat)] {
                    let Some(s) = s else { continue };
                    let ok = match jitter {
                        None => s.to_bits() == b.to_bits(),
                        Some(j) => s >= b * (1.0 - j) * (1.0 - 1e-12) && s <= b * (1.0 + j) * (1.0 + 1e-12),
                    };
                    if !(ok && s.is_finite() && s > 0.0) {
                        report.violation(
                            format!("C06:{pname}:step_size_outside_jitter_band:{which}"),
                            format!("draw {d} (num_tune={nt}): step_size={s:e} bar={b:e} jitter={jitter:?}"),
                            replay.clone(),
                        );
                    }
                }
            }
        }
    }
    h.u64(n_div.min(3)).u64(n_updates.min(3)).u64(forced_divergence_at.is_some() as u64);
    report.nontrivial(h.finish());
    report.count("draws_observed", total);
    report.count("divergent_draws", n_div);
    report.count("transformation_updates_seen", n_updates);
    if verbose {
        eprintln!("config done: divergences={n_div} updates={n_updates} frozen_from={frozen_from} bar={bar_ref:?}");
    }
}

pub fn panic_msg(p: &Box<dyn std::any::Any + Send>) -> String {
    if let Some(s) = p.downcast_ref::<&str>() {
        s.to_string()
    } else if let Some(s) = p.downcast_ref::<String>() {
        s.clone()
    } else {
        "<non-string panic payload>".into()
    }
}

pub fn run(args: &Args, report: &mut Report) {
    report.rule = "configurations = preset x num_tune (0..=40 exhaustive, plus seeded values up to 2000) x random step-size \
        method / jitter / window fractions / switch and update frequencies / growth x target (iso, scaled, funnel); each runs \
        num_tune+30 draws; distinct = (preset, num_tune, saw divergences, saw transformation updates)".into();
    report.assumptions.push("the start of the final step-size window is taken from the settings as ceil(num_tune*(1-step_size_window)) with one draw of slack".into());
    if let Some(r) = &args.replay {
        let c = cfg_from_json(r);
        run_config(report, &c, true);
        return;
    }
    let base = HRng::new(args.seed ^ 0xC06);
    // work list: (preset, num_tune or 0 meaning "draw a large one", large?)
    let mut items: Vec<(Preset, Option<u64>, u64)> = vec![];
    let small_reps = report.size(24, 2000);
    for &preset in ALL_PRESETS.iter() {
        for nt in 0..=40u64 {
            for _ in 0..small_reps {
                items.push((preset, Some(nt), 0));
            }
        }
        for k in 0..report.size(160, 30_000) {
            items.push((preset, None, k));
        }
    }
    let thorough = report.thorough();
    crate::report::par_run(report, items.len() as u64, |idx, rep| {
        let (preset, nt, k) = items[idx as usize];
        let mut rng = base.fork(idx);
        let nt = nt.unwrap_or_else(|| {
            let cap = if thorough || k == 0 { 2000.0 } else { 400.0 };
            rng.log_range(41.0, cap) as u64
        });
        let c = gen_config(&mut rng, preset, nt, idx);
        let t0 = std::time::Instant::now();
        run_config(rep, &c, false);
        if std::env::var("VERIF_TIMING").is_ok() && t0.elapsed().as_secs_f64() > 2.0 {
            eprintln!("slow {:.1}s {}", t0.elapsed().as_secs_f64(), cfg_json(&c));
        }
        if idx % 97 == 0 {
            rep.sample(cfg_json(&c));
        }
    });
}
