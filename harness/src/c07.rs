//! C07 — step-size adaptation steers acceptance to the target and stays bounded.

use nuts_rs::verif::{Adam, DualAverage, DualAverageOptions};
use nuts_rs::{AdamOptions, KineticEnergyKind, StepSizeAdaptMethod, StepSizeAdaptOptions, StepSizeSettings};
use serde_json::{Value as J, json};

use crate::Args;
use crate::chains::{Preset, chain_on, start_point};
use crate::dens::{Logged, Target};
use crate::report::Report;
use crate::tree::{HamDyn, Setup, Transform, with_hamiltonian};
use crate::util::{Fnv, HRng, mat_vec};

// ───────────────────────────── open loop ────────────────────────────────────

fn accept_sequence(rng: &mut HRng, kind: u64, n: usize) -> Vec<f64> {
    match kind % 7 {
        0 => vec![0.0; n],
        1 => vec![1.0; n],
        2 => (0..n).map(|i| (i % 2) as f64).collect(),
        3 => (0..n).map(|_| rng.unif()).collect(),
        4 => {
            // random walk clipped to [0,1]
            let mut a = rng.unif();
            (0..n)
                .map(|_| {
                    a = (a + 0.2 * rng.normal()).clamp(0.0, 1.0);
                    a
                })
                .collect()
        }
        5 => {
            // long runs of extremes
            let mut v = vec![];
            while v.len() < n {
                let len = 1 + rng.below(200) as usize;
                let x = if rng.bool(0.5) { 0.0 } else { 1.0 };
                v.extend(std::iter::repeat_n(x, len));
            }
            v.truncate(n);
            v
        }
        _ => (0..n).map(|_| if rng.bool(0.1) { rng.unif() } else { rng.range(0.7, 0.95) }).collect(),
    }
}

struct RefDual {
    log_step: f64,
    log_bar: f64,
    hbar: f64,
    mu: f64,
    count: u64,
}

impl RefDual {
    fn new(initial: f64) -> Self {
        RefDual { log_step: initial.ln(), log_bar: initial.ln(), hbar: 0.0, mu: (10.0 * initial).ln(), count: 1 }
    }
    fn advance(&mut self, o: &DualAverageOptions, a: f64, target: f64) {
        let t = self.count as f64;
        let w = 1.0 / (t + o.t0);
        self.hbar = (1.0 - w) * self.hbar + w * (target - a);
        self.log_step = (self.mu - self.hbar * t.sqrt() / o.gamma).min(o.max_step_size.ln()).max(f64::MIN_POSITIVE.ln());
        let m = t.powf(-o.k);
        self.log_bar = m * self.log_step + (1.0 - m) * self.log_bar;
        self.count += 1;
    }
}

fn close(a: f64, b: f64, rel: f64) -> bool {
    a == b || (a - b).abs() <= rel * a.abs().max(b.abs()).max(f64::MIN_POSITIVE)
}

fn open_loop_dual(report: &mut Report, seed: u64, idx: u64) {
    report.eval();
    let mut rng = HRng::new(seed).fork(idx);
    let default_opts = idx % 5 == 0;
    let o = if default_opts {
        DualAverageOptions::default()
    } else {
        DualAverageOptions { k: rng.range(0.5, 1.0), t0: rng.range(0.0, 50.0), gamma: rng.log_range(0.03, 1.0), max_step_size: rng.log_range(0.1, 50.0) }
    };
    let target = if default_opts { 0.8 } else { rng.range(0.3, 0.99) };
    let initial = rng.log_range(1e-4, 10.0);
    let n = if idx % 3 == 0 { 2000 } else { 20 + rng.below(600) as usize };
    let kind = idx / 5;
    let a = accept_sequence(&mut rng, kind, n);
    // a' >= a pointwise
    let a_hi: Vec<f64> = a.iter().map(|x| if rng.bool(0.3) { (x + rng.unif() * (1.0 - x)).min(1.0) } else { *x }).collect();
    let replay = json!({"kind": "dual", "seed": seed, "idx": idx});
    let mut da = DualAverage::new(o, initial);
    let mut db = DualAverage::new(o, initial);
    let mut rf = RefDual::new(initial);
    let ln_max = o.max_step_size.ln();
    let mut h = Fnv::new();
    h.str("dual").u64(kind % 7).u64(default_opts as u64).u64((n >= 2000) as u64);
    report.nontrivial(h.finish());
    for t in 0..n {
        da.advance(a[t], target);
        db.advance(a_hi[t], target);
        rf.advance(&o, a[t], target);
        let (s, sb) = (da.current_step_size(), da.current_step_size_adapted());
        let (s2, sb2) = (db.current_step_size(), db.current_step_size_adapted());
        report.count("dual_average_updates", 1);
        // bounded, positive, finite
        for (name, v) in [("current", s), ("averaged", sb)] {
            if !(v.is_finite() && v > 0.0) {
                report.violation(format!("C07:dual_average:step_not_positive_finite:{name}"), format!("update {t}: {name} step size {v:e} (gamma {}, t0 {}, k {}, target {target}, initial {initial}, sequence kind {})", o.gamma, o.t0, o.k, kind % 7), replay.clone());
                return;
            }
            if v.ln() > ln_max + 1e-12 {
                report.violation(format!("C07:dual_average:above_max_step_size:{name}"), format!("update {t}: {name} step size {v} > max {}", o.max_step_size), replay.clone());
                return;
            }
        }
        // documented recurrence (exp/ln round trip is only precise away from the subnormal range)
        if rf.log_step < -700.0 || rf.log_bar < -700.0 {
            continue;
        }
        if !close(s.ln(), rf.log_step, 1e-11) && (s.ln() - rf.log_step).abs() > 1e-11 {
            report.violation("C07:dual_average:recurrence_current", format!("update {t}: log step {} vs reference {}", s.ln(), rf.log_step), replay.clone());
            return;
        }
        if !close(sb.ln(), rf.log_bar, 1e-11) && (sb.ln() - rf.log_bar).abs() > 1e-11 {
            report.violation("C07:dual_average:recurrence_average", format!("update {t}: log averaged step {} vs reference weighted average {}", sb.ln(), rf.log_bar), replay.clone());
            return;
        }
        // monotone: raising acceptance never lowers a later step size (rounding slack 4 ulp of the log)
        let slack = |x: f64| 1e-13 * (1.0 + x.abs());
        if s2.ln() < s.ln() - slack(s.ln()) || sb2.ln() < sb.ln() - slack(sb.ln()) {
            report.violation("C07:dual_average:not_monotone", format!("update {t}: with raised acceptance statistics step {s2:e}/{sb2:e} < {s:e}/{sb:e}"), replay.clone());
            return;
        }
    }
    if report.samples.is_empty() {
        report.sample(json!({"kind": "dual_average_open_loop", "options": {"k": o.k, "t0": o.t0, "gamma": o.gamma, "max_step_size": o.max_step_size},
            "target": target, "initial": initial, "n": n, "sequence_kind": kind % 7, "final_step": da.current_step_size(), "final_averaged": da.current_step_size_adapted()}));
    }
}

fn open_loop_adam(report: &mut Report, seed: u64, idx: u64) {
    report.eval();
    let mut rng = HRng::new(seed).fork(0xADA + idx);
    let o = if idx % 4 == 0 {
        AdamOptions::default()
    } else {
        AdamOptions { beta1: rng.range(0.0, 0.99), beta2: rng.range(0.5, 0.9999), epsilon: rng.log_range(1e-12, 1e-3), learning_rate: rng.log_range(1e-3, 0.5) }
    };
    let target = rng.range(0.3, 0.99);
    let initial = rng.log_range(1e-4, 10.0);
    let n = 20 + rng.below(1500) as usize;
    let kind = idx / 4;
    let a = accept_sequence(&mut rng, kind, n);
    let replay = json!({"kind": "adam", "seed": seed, "idx": idx});
    let mut ad = Adam::new(o, initial);
    let mut m = 0.0f64;
    let mut prev = ad.current_step_size();
    let mut h = Fnv::new();
    h.str("adam").u64(kind % 7).u64((idx % 4 == 0) as u64);
    report.nontrivial(h.finish());
    for t in 0..n {
        ad.advance(a[t], target);
        let s = ad.current_step_size();
        report.count("adam_updates", 1);
        m = o.beta1 * m + (1.0 - o.beta1) * (a[t] - target);
        let m_hat = m / (1.0 - o.beta1.powi(t as i32 + 1));
        if !(s.is_finite() && s > 0.0) {
            report.violation("C07:adam:step_not_positive_finite", format!("update {t}: {s:e}"), replay.clone());
            return;
        }
        // moves up exactly when the smoothed (bias corrected) acceptance exceeds the target
        let tiny = 1e-14 * (1.0 + m_hat.abs());
        if m_hat > tiny && !(s > prev) && s.ln() - prev.ln() < 0.0 {
            report.violation("C07:adam:moved_down_with_acceptance_above_target", format!("update {t}: smoothed acceptance - target = {m_hat:e} but step {prev:e} -> {s:e}"), replay.clone());
            return;
        }
        if m_hat < -tiny && !(s < prev) && s.ln() - prev.ln() > 0.0 {
            report.violation("C07:adam:moved_up_with_acceptance_below_target", format!("update {t}: smoothed acceptance - target = {m_hat:e} but step {prev:e} -> {s:e}"), replay.clone());
            return;
        }
        // one update changes the log step by at most the learning rate (|m_hat|/sqrt(v_hat) <= 1/sqrt(1-beta2) bound is loose; use it)
        prev = s;
    }
}

// ───────────────────────────── initial search ───────────────────────────────

fn search_case(report: &mut Report, seed: u64, idx: u64) {
    report.eval();
    let mut rng = HRng::new(seed).fork(0x5EA + idx);
    let d = 1 + rng.below(8) as usize;
    let kind = if idx % 3 == 0 { KineticEnergyKind::ExactNormal } else { KineticEnergyKind::Euclidean };
    let target = match (idx / 3) % 4 {
        0 => Target::iso(d, 0.2),
        1 => Target::scaled(&mut rng, d, 100.0),
        2 => Target::correlated(&mut rng, d, 20.0),
        _ => Target::Logistic { dim: d },
    };
    let lowrank = rng.bool(0.5);
    let transform = match Transform::random(&mut rng, d, lowrank) {
        Transform::Diag { mean, .. } => Transform::Diag { stds: (0..d).map(|_| rng.log_range(0.1, 10.0)).collect(), mean },
        t => t,
    };
    let (f, c) = transform.dense();
    let y0: Vec<f64> = rng.normal_vec(d);
    let start: Vec<f64> = mat_vec(&f, &y0).iter().zip(&c).map(|(a, b)| a + b).collect();
    let momentum = rng.normal_vec(d);
    let target_accept = rng.range(0.4, 0.95);
    // mostly ordinary starting values, sometimes far outside the range in which the search stops on its own
    let initial_step = match idx % 8 {
        6 => rng.log_range(1e-14, 1e-8),
        7 => rng.log_range(1e3, 1e7),
        _ => rng.log_range(1e-3, 10.0),
    };
    let method = if rng.bool(0.5) { StepSizeAdaptMethod::DualAverage } else { StepSizeAdaptMethod::Adam };
    let settings = StepSizeSettings {
        target_accept,
        initial_step,
        jitter: None,
        adapt_options: StepSizeAdaptOptions { method, ..Default::default() },
    };
    let setup = Setup { target, transform, kind, step_size: initial_step, start: start.clone() };
    let replay = json!({"kind": "search", "seed": seed, "idx": idx});
    let kname = setup.kind_name();
    let r: Result<(), String> = with_hamiltonian(&setup, &mut |math, h| {
        let (eps, evals) = h.stepsize_search(math, settings, &start, &momentum)?;
        report.count("search_density_evaluations", evals);
        // one-step acceptance at a step size, measured with the real integrator (C02 checks it) and the
        // energies the implementation reports
        let mut acc = |e: f64, math: &mut crate::chains::SM, h: &mut dyn HamDyn, forward: bool| -> Result<Option<f64>, String> {
            h.set_step_size(e);
            Ok(match h.leapfrog(math, &start, &momentum, forward, 1000.0)? {
                (init, Some(end)) => Some((init.energy - end.energy).min(0.0).exp()),
                _ => None,
            })
        };
        if !(eps.is_finite() && eps > 0.0) {
            report.violation(format!("C07:search:{kname}:step_not_positive_finite"), format!("search left step size {eps:e}"), replay.clone());
            return Ok(());
        }
        // the first trial decides the direction convention
        let Some(a0) = acc(initial_step, math, h, true)? else {
            // failed first trial: documented escape, keeps the initial step
            if eps != initial_step {
                report.violation(format!("C07:search:{kname}:failed_trial_changes_step"), format!("first trial failed but step {eps} != initial {initial_step}"), replay.clone());
            }
            report.count("search_escape_failed_trial", 1);
            return Ok(());
        };
        let doubling = a0 > target_accept;
        let a_eps = acc(eps, math, h, doubling)?;
        let mut hsh = Fnv::new();
        hsh.str("search").str(kname).u64(doubling as u64).u64(((eps / initial_step).log2().abs().round() as u64).min(12));
        report.nontrivial(hsh.finish());
        // documented escapes: doubling gives up above 1e5, halving below 1e-10
        if (doubling && eps > 1e5) || (!doubling && eps < 1e-10) {
            report.count("search_escape_range", 1);
            return Ok(());
        }
        let Some(a_eps) = a_eps else {
            report.count("search_escape_failed_trial", 1);
            if eps != initial_step {
                report.violation(format!("C07:search:{kname}:failed_trial_changes_step"), format!("a trial failed but step {eps} != initial {initial_step}"), replay.clone());
            }
            return Ok(());
        };
        if eps == initial_step && ((eps / initial_step).log2().abs() < 0.5) {
            // either bracketed at once or fell back to the initial value after a failed trial / 100 iterations
        }
        let steps = (eps / initial_step).log2().round();
        if (eps / initial_step).log2() - steps != 0.0 {
            report.violation(format!("C07:search:{kname}:step_not_power_of_two_multiple"), format!("step {eps} initial {initial_step}"), replay.clone());
        }
        if steps.abs() >= 100.0 {
            report.count("search_escape_iterations", 1);
            return Ok(());
        }
        let slack = 1e-9;
        if doubling {
            // accepted step: acceptance dropped to the target or below; half of it was still above
            let a_half = if steps >= 1.0 { acc(eps / 2.0, math, h, true)? } else { Some(a0) };
            if a_eps > target_accept + slack {
                // may only happen via the fallback to the initial step
                if eps != initial_step {
                    report.violation(format!("C07:search:{kname}:doubling_stopped_above_target"), format!("acceptance at final step {eps} is {a_eps} > target {target_accept}"), replay.clone());
                } else {
                    // legitimate only if a trial step on the doubling path failed before a bracket was reached
                    let mut e = initial_step;
                    let mut verdict = "iterations";
                    for _ in 0..100 {
                        match acc(e, math, h, true)? {
                            None => { verdict = "failed_trial"; break }
                            Some(a) if a <= target_accept || e > 1e5 => { verdict = "bracket"; break }
                            _ => e *= 2.0,
                        }
                    }
                    if verdict == "bracket" {
                        report.violation(format!("C07:search:{kname}:search_gave_up_before_bracket"), format!("doubling from {initial_step} reaches a bracket at {e} without a failed trial, but the search returned the initial step"), replay.clone());
                    } else {
                        report.count("search_fallback_to_initial", 1);
                    }
                }
            } else if let Some(ah) = a_half {
                if steps >= 1.0 && ah <= target_accept - slack {
                    report.violation(format!("C07:search:{kname}:doubled_past_bracket"), format!("acceptance at {} is {ah} <= target {target_accept} already, but search went on to {eps}", eps / 2.0), replay.clone());
                }
            }
        } else {
            let a_double = if steps <= -1.0 { acc(eps * 2.0, math, h, false)? } else { Some(a0) };
            if a_eps < target_accept - slack {
                if eps != initial_step {
                    report.violation(format!("C07:search:{kname}:halving_stopped_below_target"), format!("acceptance at final step {eps} is {a_eps} < target {target_accept}"), replay.clone());
                } else {
                    let mut e = initial_step;
                    let mut verdict = "iterations";
                    for _ in 0..100 {
                        match acc(e, math, h, false)? {
                            None => { verdict = "failed_trial"; break }
                            Some(a) if a >= target_accept || e < 1e-10 => { verdict = "bracket"; break }
                            _ => e /= 2.0,
                        }
                    }
                    if verdict == "bracket" {
                        report.violation(format!("C07:search:{kname}:search_gave_up_before_bracket"), format!("halving from {initial_step} reaches a bracket at {e} without a failed trial, but the search returned the initial step"), replay.clone());
                    } else {
                        report.count("search_fallback_to_initial", 1);
                    }
                }
            } else if let Some(ad) = a_double {
                if steps <= -1.0 && ad >= target_accept + slack {
                    report.violation(format!("C07:search:{kname}:halved_past_bracket"), format!("acceptance at {} is {ad} >= target {target_accept} already, but search went on to {eps}", eps * 2.0), replay.clone());
                }
            }
        }
        report.count("searches_bracket_checked", 1);
        if report.samples.len() < 3 {
            report.sample(json!({"kind": "initial_search", "setup": setup.to_json(), "target_accept": target_accept, "initial_step": initial_step,
                "final_step": eps, "acceptance_at_final": a_eps, "direction": if doubling { "doubling" } else { "halving" }}));
        }
        Ok(())
    });
    if r.is_err() {
        report.inconclusive("search could not run");
    }
}

// ───────────────────────────── closed loop ──────────────────────────────────

fn closed_loop_case(report: &mut Report, seed: u64, idx: u64, confirm: bool) -> Option<(f64, f64)> {
    report.eval();
    let mut rng = HRng::new(seed).fork(0xC105ED + idx);
    let preset = if idx % 2 == 0 { Preset::DiagNuts } else { Preset::LowRankNuts };
    let target_accept = [0.6, 0.8, 0.9][(idx / 2 % 3) as usize];
    let method = if (idx / 6) % 2 == 0 { json!("DualAverage") } else { json!("Adam") };
    let d = *rng.choose(&[2usize, 5, 10, 20]);
    let target = match (idx / 12) % 3 {
        0 => Target::iso(d, 1.0),
        1 => Target::scaled(&mut rng, d, 100.0),
        _ => Target::correlated(&mut rng, d, 10.0),
    };
    let post = if confirm { 2400 } else { 600 };
    let start = start_point(&target, &mut rng);
    let patches: Vec<(&str, J)> = vec![
        ("num_tune", json!(600)),
        ("num_draws", json!(post)),
        ("adapt_options.step_size_settings.target_accept", json!(target_accept)),
        ("adapt_options.step_size_settings.adapt_options.method", method.clone()),
    ];
    let (mut chain, _) = chain_on(preset, &patches, Logged::new(target.clone(), false), rng.next_u64()).ok()?;
    chain.set_position(&start).ok()?;
    let mut acc = vec![];
    for dd in 0..(600 + post) {
        let o = chain.draw().ok()?;
        if dd >= 600 {
            acc.push(o.f64("mean_tree_accept_sym")?);
        }
    }
    let mean = crate::util::mean(&acc);
    let se = crate::util::batch_means_se(&acc);
    let mut h = Fnv::new();
    h.str("closed").str(preset.name()).u64((target_accept * 10.0) as u64).str(&method.to_string()).str(target.name());
    report.nontrivial(h.finish());
    report.count("closed_loop_draws", acc.len() as u64);
    Some((mean - target_accept, se))
}

// ───────────────────────────── Adam inside a real chain ─────────────────────

#[derive(Clone, Copy, Debug)]
struct RefAdam {
    log_step: f64,
    m: f64,
    v: f64,
    t: u64,
}

impl RefAdam {
    fn new(step: f64) -> Self {
        RefAdam { log_step: step.ln(), m: 0.0, v: 0.0, t: 0 }
    }
    fn advanced(&self, o: &AdamOptions, a: f64, target: f64) -> RefAdam {
        let g = a - target;
        let t = self.t + 1;
        let m = o.beta1 * self.m + (1.0 - o.beta1) * g;
        let v = o.beta2 * self.v + (1.0 - o.beta2) * g * g;
        let m_hat = m / (1.0 - o.beta1.powi(t as i32));
        let v_hat = v / (1.0 - o.beta2.powi(t as i32));
        let log_step = (self.log_step + o.learning_rate * m_hat / (v_hat.sqrt() + o.epsilon)).clamp(f64::MIN_POSITIVE.ln(), f64::MAX.ln());
        RefAdam { log_step, m, v, t }
    }
}

/// The Adam arm of the adaptation strategy as it is wired into a chain: the reported step size after every warmup
/// draw must be the Adam update of the previous one with the asymmetric acceptance statistic (before the final
/// window: either statistic, since the switch to the symmetric one may come earlier) or the symmetric one (final
/// window), and it must move up exactly when the smoothed acceptance exceeds the target.
pub fn adam_chain_case(report: &mut Report, seed: u64, idx: u64, prop: &str) {
    report.eval();
    let mut rng = HRng::new(seed).fork(0xADAC4A1 + idx);
    let preset = if idx % 2 == 0 { Preset::DiagNuts } else { Preset::LowRankNuts };
    let replay = json!({"kind": "adam_chain", "seed": seed, "idx": idx});
    let o = if idx % 3 == 0 {
        AdamOptions::default()
    } else {
        AdamOptions { beta1: rng.range(0.0, 0.95), beta2: rng.range(0.5, 0.9999), epsilon: rng.log_range(1e-12, 1e-4), learning_rate: rng.log_range(5e-3, 0.3) }
    };
    let target_accept = rng.range(0.5, 0.95);
    let d = 1 + rng.below(6) as usize;
    let target = match (idx / 2) % 3 {
        0 => Target::iso(d, 1.0),
        1 => Target::scaled(&mut rng, d, 30.0),
        _ => Target::correlated(&mut rng, d, 10.0),
    };
    let nt = 40 + rng.below(300);
    let step_window = *rng.choose(&[0.15, 0.3, 0.6]);
    let start = start_point(&target, &mut rng);
    let patches: Vec<(&str, J)> = vec![
        ("num_tune", json!(nt)),
        ("num_draws", json!(10)),
        ("adapt_options.step_size_window", json!(step_window)),
        ("adapt_options.step_size_settings.target_accept", json!(target_accept)),
        ("adapt_options.step_size_settings.adapt_options.method", json!("Adam")),
        ("adapt_options.step_size_settings.adapt_options.adam.beta1", json!(o.beta1)),
        ("adapt_options.step_size_settings.adapt_options.adam.beta2", json!(o.beta2)),
        ("adapt_options.step_size_settings.adapt_options.adam.epsilon", json!(o.epsilon)),
        ("adapt_options.step_size_settings.adapt_options.adam.learning_rate", json!(o.learning_rate)),
    ];
    let Ok((mut chain, skipped)) = chain_on(preset, &patches, Logged::new(target.clone(), false), rng.next_u64()) else {
        report.inconclusive("adam chain: settings rejected");
        return;
    };
    if !skipped.is_empty() {
        report.inconclusive("adam chain: settings path missing");
        return;
    }
    if chain.set_position(&start).is_err() {
        report.inconclusive("adam chain: set_position failed");
        return;
    }
    let Some(w0) = chain.window() else {
        report.inconclusive("adam chain: no window state");
        return;
    };
    let f_win = w0.final_step_size_window;
    let mut pre = w0;
    let mut hyp = vec![RefAdam::new(chain.current_step_size())];
    let (mut n_final, mut n_up, mut n_down) = (0u64, 0u64, 0u64);
    for dd in 0..nt {
        let out = match crate::util::guard(|| chain.draw()) {
            Ok(Ok(o)) => o,
            _ => {
                report.inconclusive("adam chain: draw failed");
                return;
            }
        };
        let post = chain.window().unwrap();
        let (Some(bar), Some(a), Some(a_sym)) = (out.f64("step_size_bar"), out.f64("mean_tree_accept"), out.f64("mean_tree_accept_sym")) else {
            report.inconclusive("adam chain: statistics missing");
            return;
        };
        if !(bar.is_finite() && bar > 0.0) {
            report.violation(format!("{prop}:adam_chain:step_not_positive_finite"), format!("draw {dd}: {bar:e}"), replay);
            return;
        }
        let ok = |r: &RefAdam| (bar.ln() - r.log_step).abs() <= 1e-9 * (1.0 + r.log_step.abs());
        let mut next: Vec<RefAdam> = vec![];
        let mut asym_matches_in_final = false;
        for r in &hyp {
            let c_sym = r.advanced(&o, a_sym, target_accept);
            let c_asym = r.advanced(&o, a, target_accept);
            // an accepted candidate continues from the step size the implementation actually holds: only the error of
            // one update is judged, rounding differences do not add up over a long warmup
            let resync = |mut c: RefAdam| {
                c.log_step = bar.ln();
                c
            };
            if ok(&c_sym) {
                next.push(resync(c_sym));
            }
            if ok(&c_asym) {
                if dd < f_win {
                    next.push(resync(c_asym));
                } else if !ok(&c_sym) {
                    asym_matches_in_final = true;
                }
            }
        }
        let reinit = pre.has_initial_mass_matrix && !post.has_initial_mass_matrix;
        if reinit {
            // a successful re-run of the search restarts Adam from the step it found; a failed one leaves it alone
            next.push(RefAdam::new(bar));
        }
        next.sort_by(|x, y| (x.log_step, x.m, x.v).partial_cmp(&(y.log_step, y.m, y.v)).unwrap_or(std::cmp::Ordering::Equal));
        // (two states are the same only if the slowly forgetting second moment agrees as well)
        next.dedup_by(|x, y| (x.log_step - y.log_step).abs() < 1e-13 && (x.m - y.m).abs() < 1e-13 && (x.v - y.v).abs() <= 1e-13 * (x.v.abs() + 1e-300) && x.t == y.t);
        if next.len() > 256 {
            report.inconclusive("adam chain: too many hypotheses");
            return;
        }
        if next.is_empty() {
            let r = hyp[0];
            let (c_sym, c_asym) = (r.advanced(&o, a_sym, target_accept), r.advanced(&o, a, target_accept));
            let moved = bar.ln() - r.log_step;
            let what = if dd >= f_win && asym_matches_in_final {
                "final_window_uses_asymmetric_statistic"
            } else if hyp.len() == 1 && moved * (c_sym.log_step - r.log_step) < 0.0 && moved * (c_asym.log_step - r.log_step) < 0.0 {
                "moved_against_smoothed_acceptance"
            } else {
                "step_size_not_reproduced"
            };
            report.violation(
                format!("{prop}:adam_chain:{what}"),
                format!(
                    "{} draw {dd} (final window from {f_win}, num_tune {nt}): acceptance {a} / symmetric {a_sym}, target {target_accept}; step {:e} -> {bar:e}; the Adam update gives {:e} (asymmetric) / {:e} (symmetric) [{} hypotheses]",
                    preset.name(), r.log_step.exp(), c_asym.log_step.exp(), c_sym.log_step.exp(), hyp.len()
                ),
                replay,
            );
            return;
        }
        if next.iter().all(|r| r.log_step > hyp.iter().map(|h| h.log_step).fold(f64::NEG_INFINITY, f64::max)) {
            n_up += 1;
        } else {
            n_down += 1;
        }
        if dd >= f_win {
            n_final += 1;
        }
        report.count("adam_chain_updates_replayed", 1);
        hyp = next;
        pre = post;
    }
    report.count("adam_chain_updates_in_final_window", n_final);
    let mut h = Fnv::new();
    h.str("adam_chain").str(preset.name()).str(target.name()).u64((idx % 3 == 0) as u64).u64((n_up > 0) as u64).u64((n_down > 0) as u64).u64((n_final > 10) as u64);
    report.nontrivial(h.finish());
}

pub fn run(args: &Args, report: &mut Report) {
    report.rule = "open loop: DualAverage / Adam objects (hook) driven with 7 families of acceptance sequences (all-0, all-1, alternating, uniform, \
        random walk, long extreme runs, realistic) of length <= 2000 x random options; initial search: real Strategy::init on random targets / \
        transformations / momenta, bracket re-measured with the real integrator; Adam inside real chains: every warmup update replayed from the \
        reported statistics (early / late statistic, direction); closed loop: adapted chains on Gaussian targets x target_accept \
        {0.6,0.8,0.9} x {DualAverage, Adam}; distinct = (component, sequence family / direction and number of doublings / configuration)".into();
    report.assumptions.push("closed-loop tolerance: |mean symmetric acceptance - target| <= 0.3 + 6 standard errors (largest deviation seen on the unchanged tree over 300 calibration runs: 0.13), confirmed on three fresh seeds with 4x the draws before it counts".into());
    let seed = args.seed ^ 0xC07;
    if let Some(r) = &args.replay {
        let idx = r["idx"].as_u64().unwrap();
        let s = r["seed"].as_u64().unwrap();
        match r["kind"].as_str().unwrap() {
            "dual" => open_loop_dual(report, s, idx),
            "adam" => open_loop_adam(report, s, idx),
            "search" => search_case(report, s, idx),
            "adam_chain" => adam_chain_case(report, s, idx, "C07"),
            _ => {
                let r = closed_loop_case(report, s, idx, false);
                eprintln!("{r:?}");
            }
        }
        return;
    }
    let n_dual = report.size(12_000, 4_000_000);
    let n_adam = report.size(6000, 1_500_000);
    let n_search = report.size(6000, 1_500_000);
    let n_adam_chain = report.size(960, 300_000);
    crate::report::par_run(report, n_adam_chain, |i, rep| adam_chain_case(rep, seed, i, "C07"));
    crate::report::par_run(report, n_dual + n_adam + n_search, |i, rep| {
        if i < n_dual {
            open_loop_dual(rep, seed, i)
        } else if i < n_dual + n_adam {
            open_loop_adam(rep, seed, i - n_dual)
        } else {
            search_case(rep, seed, i - n_dual - n_adam)
        }
    });
    // closed loop with confirmation stage
    let n_closed = report.size(72, 2304);
    let results = std::sync::Mutex::new(Vec::new());
    crate::report::par_run(report, n_closed, |i, rep| {
        if let Some((dev, se)) = closed_loop_case(rep, seed, i, false) {
            results.lock().unwrap().push((i, dev, se));
        } else {
            rep.inconclusive("closed loop run failed");
        }
    });
    let mut results = results.into_inner().unwrap();
    results.sort_by_key(|r| r.0);
    let mut worst: f64 = 0.0;
    for (i, dev, se) in results {
        worst = worst.max(dev.abs());
        if std::env::var("VERIF_TIMING").is_ok() {
            eprintln!("closed loop {i}: dev {dev:+.4} se {se:.4}");
        }
        if dev.abs() > 0.3 + 6.0 * se {
            // confirmation: three fresh seeds, 4x the draws, same sign
            let mut confirmed = 0;
            for k in 0..3u64 {
                let mut sub = report.child();
                let r2 = closed_loop_case(&mut sub, seed ^ (0x1000 + k), i, true);
                if std::env::var("VERIF_TIMING").is_ok() {
                    eprintln!("  confirm {i}/{k}: {r2:?}");
                }
                if let Some((d2, s2)) = r2 {
                    if d2.abs() > 0.3 + 6.0 * s2 && d2.signum() == dev.signum() {
                        confirmed += 1;
                    }
                }
            }
            if confirmed == 3 {
                report.violation(
                    format!("C07:closed_loop:acceptance_off_target:{}", if dev > 0.0 { "above" } else { "below" }),
                    format!("configuration {i}: post-warmup mean symmetric acceptance deviates from target by {dev:+.3} (se {se:.3}), confirmed on 3 fresh seeds"),
                    json!({"kind": "closed", "seed": seed, "idx": i}),
                );
            } else {
                report.inconclusive("closed loop deviation not confirmed");
            }
        }
    }
    report.set("closed_loop_worst_abs_deviation", json!(worst));
}
