//! Shared machinery of the storage monitors C14 / C15:
//!  * a multi-type density (`Multi`) whose expanded vector has variables of every item type,
//!  * recorded value streams (`Rec`) from real chains, plus special-value injection,
//!  * a generic driver that replays streams into any backend through the storage traits,
//!  * Zarr store handling (memory / filesystem, sync / async writers, snapshots) and an
//!    independent Zarr reader + comparison against a recorded prefix.

use std::collections::{BTreeMap, HashMap};
use std::sync::{Arc, OnceLock};

use nuts_rs::verif::{ChainStorage, StorageConfig, TraceStorage, make_progress};
use nuts_rs::{
    CpuLogpFunc, CpuMath, CpuMathError, DiagMclmcSettings, DiagNutsSettings, FlowMclmcSettings, FlowNutsSettings,
    HasDims, ItemType, LowRankMclmcSettings, LowRankNutsSettings, Math, Model, Progress, Settings, Storable, Value,
};
use serde_json::{Value as J, json};
use zarrs::storage::store::MemoryStore;
use zarrs::storage::{
    AsyncReadableWritableListableStorage, ListableStorageTraits, ReadableListableStorageTraits, ReadableStorageTraits, ReadableWritableListableStorageTraits,
    ReadableWritableListableStorage, WritableStorageTraits,
};

use crate::chains::{Preset, build_chain, settings_json, start_point};
use crate::dens::{AffineFlow, DensErr, Logged, Target};
use crate::script::ScriptMath;
use crate::util::{Fnv, HRng, guard};

/// Statistics that the HashMap / ndarray / Zarr backends deliberately do not store.
pub const SKIP: [&str; 2] = ["draw", "chain"];

// ── multi-type density ──────────────────────────────────────────────────────

/// `Logged` target with a configurable expanded vector:
/// variant 0: `value` (f64 vector, as `Logged`); 1: + scalar/vector/matrix variables of every
/// item type (string scalar); 2: + a string vector; 3: no variables at all (like `()`).
#[derive(Clone)]
pub struct Multi {
    pub inner: Logged,
    pub variant: u8,
}

pub fn multi_vars(variant: u8) -> Vec<(&'static str, ItemType, Vec<&'static str>)> {
    let mut v = vec![];
    if variant == 3 {
        return v;
    }
    v.push(("value", ItemType::F64, vec!["dim"]));
    if variant >= 1 {
        v.push(("s_f64", ItemType::F64, vec![]));
        v.push(("m_f64", ItemType::F64, vec!["row", "col"]));
        v.push(("v_f32", ItemType::F32, vec!["three"]));
        v.push(("s_f32", ItemType::F32, vec![]));
        v.push(("v_i64", ItemType::I64, vec!["three"]));
        v.push(("s_i64", ItemType::I64, vec![]));
        v.push(("v_u64", ItemType::U64, vec!["three"]));
        v.push(("s_u64", ItemType::U64, vec![]));
        v.push(("v_bool", ItemType::Bool, vec!["three"]));
        v.push(("s_bool", ItemType::Bool, vec![]));
        v.push(("s_str", ItemType::String, vec![]));
    }
    if variant >= 2 {
        v.push(("v_str", ItemType::String, vec!["three"]));
    }
    v
}

/// Deterministic values of the expanded variables for a position.
pub fn multi_values(variant: u8, x: &[f64]) -> Vec<(&'static str, Value)> {
    let mut out = vec![];
    if variant == 3 {
        return out;
    }
    let mut h = Fnv::new();
    h.f64s(x);
    let h = h.finish();
    let x0 = x.first().copied().unwrap_or(0.25);
    out.push(("value", Value::F64(x.to_vec())));
    if variant >= 1 {
        let sum: f64 = x.iter().sum();
        out.push(("s_f64", Value::ScalarF64(sum)));
        out.push(("m_f64", Value::F64((0..6).map(|i| x0 * (i as f64 + 1.0) + i as f64 * 0.125).collect())));
        out.push(("v_f32", Value::F32(vec![x0 as f32, (2.0 * x0) as f32, 1.5])));
        out.push(("s_f32", Value::ScalarF32(sum as f32)));
        out.push(("v_i64", Value::I64(vec![(x0 * 1e3) as i64, -((h >> 3) as i64), (h % 11) as i64 - 5])));
        out.push(("s_i64", Value::ScalarI64(h as i64)));
        out.push(("v_u64", Value::U64(vec![h, h >> 7, u64::MAX - (h & 0xff)])));
        out.push(("s_u64", Value::ScalarU64(h | (1 << 63))));
        out.push(("v_bool", Value::Bool(vec![h & 1 != 0, h & 2 != 0, h & 4 != 0])));
        out.push(("s_bool", Value::ScalarBool(x0 > 0.0)));
        out.push(("s_str", Value::ScalarString(if h % 5 == 0 { String::new() } else { format!("s{:x}", h & 0xffff) })));
    }
    if variant >= 2 {
        out.push(("v_str", Value::Strings(vec![format!("a{}", h % 7), String::new(), "\u{fc},\"q\"".to_string()])));
    }
    out
}

pub struct MultiDraw(Vec<(&'static str, Value)>);

impl Storable<Multi> for MultiDraw {
    fn names(p: &Multi) -> Vec<&str> {
        multi_vars(p.variant).into_iter().map(|v| v.0).collect()
    }
    fn item_type(p: &Multi, item: &str) -> ItemType {
        multi_vars(p.variant).into_iter().find(|v| v.0 == item).expect("unknown multi variable").1
    }
    fn dims<'a>(p: &'a Multi, item: &str) -> Vec<&'a str> {
        multi_vars(p.variant).into_iter().find(|v| v.0 == item).expect("unknown multi variable").2
    }
    fn get_all<'a>(&'a mut self, _p: &'a Multi) -> Vec<(&'a str, Option<Value>)> {
        self.0.iter().map(|(n, v)| (*n, Some(v.clone()))).collect()
    }
}

impl HasDims for Multi {
    fn dim_sizes(&self) -> HashMap<String, u64> {
        let d = self.inner.target.dim() as u64;
        HashMap::from([
            ("unconstrained_parameter".to_string(), d),
            ("dim".to_string(), d),
            ("row".to_string(), 2),
            ("col".to_string(), 3),
            ("three".to_string(), 3),
        ])
    }
}

impl CpuLogpFunc for Multi {
    type LogpError = DensErr;
    type FlowParameters = AffineFlow;
    type ExpandedVector = MultiDraw;

    fn dim(&self) -> usize {
        self.inner.dim()
    }
    fn logp(&mut self, x: &[f64], g: &mut [f64]) -> Result<f64, DensErr> {
        self.inner.logp(x, g)
    }
    fn expand_vector<R: rand::Rng + ?Sized>(&mut self, _rng: &mut R, x: &[f64]) -> Result<MultiDraw, CpuMathError> {
        Ok(MultiDraw(multi_values(self.variant, x)))
    }
    fn inv_transform_normalize(&mut self, p: &AffineFlow, x: &[f64], g: &[f64], y: &mut [f64], gy: &mut [f64]) -> Result<f64, DensErr> {
        self.inner.inv_transform_normalize(p, x, g, y, gy)
    }
    fn init_from_untransformed_position(&mut self, p: &AffineFlow, x: &[f64], g: &mut [f64], y: &mut [f64], gy: &mut [f64]) -> Result<(f64, f64), DensErr> {
        self.inner.init_from_untransformed_position(p, x, g, y, gy)
    }
    fn init_from_transformed_position(&mut self, p: &AffineFlow, x: &mut [f64], g: &mut [f64], y: &[f64], gy: &mut [f64]) -> Result<(f64, f64), DensErr> {
        self.inner.init_from_transformed_position(p, x, g, y, gy)
    }
    fn update_transformation<'a, R: rand::Rng + ?Sized>(
        &'a mut self,
        rng: &mut R,
        a: impl ExactSizeIterator<Item = &'a [f64]>,
        b: impl ExactSizeIterator<Item = &'a [f64]>,
        c: impl ExactSizeIterator<Item = &'a f64>,
        p: &'a mut AffineFlow,
    ) -> Result<(), DensErr> {
        self.inner.update_transformation(rng, a, b, c, p)
    }
    fn init_transformation<R: rand::Rng + ?Sized>(&mut self, rng: &mut R, x: &[f64], g: &[f64], chain: u64) -> Result<AffineFlow, DensErr> {
        self.inner.init_transformation(rng, x, g, chain)
    }
    fn new_transformation<R: rand::Rng + ?Sized>(&mut self, rng: &mut R, dim: usize, chain: u64) -> Result<AffineFlow, DensErr> {
        self.inner.new_transformation(rng, dim, chain)
    }
    fn transformation_id(&self, p: &AffineFlow) -> Result<i64, DensErr> {
        self.inner.transformation_id(p)
    }
}

/// Model over `Multi` for the parallel sampler.
pub struct MultiModel {
    pub target: Target,
    pub variant: u8,
    /// artificial delay per density evaluation (slows chains down so that they can be paused)
    pub delay_us: u64,
}

impl Model for MultiModel {
    type Math<'m> = CpuMath<Multi>;
    fn math<R: rand::Rng + ?Sized>(&self, _rng: &mut R) -> anyhow::Result<CpuMath<Multi>> {
        let m = Multi { inner: Logged::new(self.target.clone(), false), variant: self.variant };
        m.inner.log.lock().unwrap().delay_us = self.delay_us;
        Ok(CpuMath::new(m))
    }
    fn init_position<R: rand::Rng + ?Sized>(&self, rng: &mut R, position: &mut [f64]) -> anyhow::Result<()> {
        use rand::RngExt;
        for p in position.iter_mut() {
            let u: f64 = rng.random();
            *p = 2.0 * u - 1.0;
        }
        Ok(())
    }
}

pub fn multi_math(target: &Target, variant: u8) -> CpuMath<Multi> {
    CpuMath::new(Multi { inner: Logged::new(target.clone(), false), variant })
}

// ── reference run ──

/// Reference run of the sampler with the recording backend.
pub fn reference_run<S: Settings, Mo: Model>(settings: S, model: Mo, n_chains: usize) -> Result<Vec<Vec<Rec>>, String> {
    let (cfg, shared) = crate::recorder::RecConfig::new();
    let mut sampler = nuts_rs::Sampler::new(model, settings, cfg, n_chains.clamp(1, 3), None).map_err(|e| format!("{e:#}"))?;
    let mut done = false;
    for _ in 0..60 {
        match sampler.wait_timeout(std::time::Duration::from_secs(2)) {
            nuts_rs::SamplerWaitResult::Trace(_) => {
                done = true;
                break;
            }
            nuts_rs::SamplerWaitResult::Timeout(s) => sampler = s,
            nuts_rs::SamplerWaitResult::Err(e, _) => return Err(format!("reference run failed: {e:#}")),
        }
    }
    if !done {
        return Err("reference run timed out".into());
    }
    let snap = shared.snapshot();
    Ok((0..n_chains as u64).map(|c| snap.get(&c).map(|v| v.iter().map(Rec::from_record).collect()).unwrap_or_default()).collect())
}


// ── recorded streams ────────────────────────────────────────────────────────

/// One `record_sample` call.
#[derive(Clone, Debug)]
pub struct Rec {
    pub stats: Vec<(String, Option<Value>)>,
    pub draws: Vec<(String, Option<Value>)>,
    pub draw: u64,
    pub chain: u64,
    pub diverging: bool,
    pub tuning: bool,
    pub step_size: f64,
    pub num_steps: u64,
}

impl Rec {
    pub fn progress(&self) -> Progress {
        make_progress(self.draw, self.chain, self.diverging, self.tuning, self.step_size, self.num_steps)
    }
    pub fn from_record(r: &crate::recorder::Record) -> Rec {
        Rec {
            stats: r.stats.clone(),
            draws: r.draws.clone(),
            draw: r.draw,
            chain: r.progress_chain,
            diverging: r.diverging,
            tuning: r.tuning,
            step_size: r.step_size,
            num_steps: r.num_steps,
        }
    }
}

/// What determines a value stream (also the replay payload).
#[derive(Clone, Debug, serde::Serialize, serde::Deserialize)]
pub struct StreamSpec {
    pub preset: String,
    /// "iso" | "scaled" | "funnel"
    pub target: String,
    pub dim: usize,
    pub num_tune: u64,
    pub num_draws: u64,
    pub n_chains: usize,
    /// records per chain (min with num_tune + num_draws): fewer = aborted run
    pub n_records: u64,
    pub seed: u64,
    pub variant: u8,
    pub store_divergences: bool,
    pub store_extra: bool,
    /// inject NaN / inf / empty strings / huge integers into the recorded values
    pub special: bool,
}

impl StreamSpec {
    pub fn preset(&self) -> Preset {
        Preset::from_name(&self.preset).expect("preset name")
    }
    pub fn target(&self) -> Target {
        let mut rng = HRng::new(self.seed ^ 0x7a5);
        match self.target.as_str() {
            "funnel" => Target::Funnel { k: self.dim.max(2) - 1 },
            "scaled" => Target::scaled(&mut rng, self.dim, 20.0),
            _ => Target::iso(self.dim, 0.5),
        }
    }
    /// Settings JSON: small trees, early transformation updates, tight energy limit on the
    /// funnel (=> divergence events).
    pub fn settings_json(&self) -> J {
        let preset = self.preset();
        let funnel = self.target == "funnel";
        let mut patches: Vec<(&str, J)> = vec![
            ("num_tune", json!(self.num_tune)),
            ("num_draws", json!(self.num_draws)),
            ("num_chains", json!(self.n_chains)),
            ("seed", json!(self.seed % 1_000_003)),
            ("store_divergences", json!(self.store_divergences)),
            ("store_gradient", json!(self.store_extra)),
            ("store_unconstrained", json!(self.store_extra)),
            ("store_transformed", json!(self.store_extra)),
            ("adapt_options.mass_matrix_options.store_mass_matrix", json!(self.store_extra)),
            ("adapt_options.early_mass_matrix_switch_freq", json!(3)),
            ("adapt_options.mass_matrix_switch_freq", json!(5)),
            ("adapt_options.transform_update_freq", json!(4)),
        ];
        if preset.is_nuts() {
            patches.push(("maxdepth", json!(4)));
            if funnel {
                patches.push(("max_energy_error", json!(1.5)));
            }
        } else {
            let ss = if funnel { 0.9 } else { 0.3 };
            patches.push(("step_size", json!(ss)));
            patches.push(("momentum_decoherence_length", json!(1.5)));
            patches.push(("adapt_options.step_size_settings.adapt_options.method", json!({"Fixed": ss})));
            if funnel {
                // large fixed steps without retry: divergences in the neck of the funnel
                patches.push(("max_energy_error", json!(20.0)));
                patches.push(("dynamic_step_size", json!(false)));
            }
        }
        settings_json(preset, &patches).0
    }
}

/// Run one real chain per stream and collect what `Storable::get_all` produced.
pub fn gen_streams(spec: &StreamSpec) -> Result<Vec<Vec<Rec>>, String> {
    let preset = spec.preset();
    let target = spec.target();
    let j = spec.settings_json();
    let n = (spec.num_tune + spec.num_draws).min(spec.n_records);
    let mut out = vec![];
    for c in 0..spec.n_chains {
        let mut rng = HRng::new(spec.seed).fork(c as u64 + 1);
        let start = start_point(&target, &mut rng);
        let math = ScriptMath::new(Logged::new(target.clone(), false));
        let mut chain = build_chain(preset, &j, math, rng.next_u64(), c as u64).map_err(|e| format!("build_chain: {e}"))?;
        chain.set_position(&start).map_err(|e| format!("set_position: {e}"))?;
        let mut recs = vec![];
        for _ in 0..n {
            let o = guard(|| chain.draw()).map_err(|p| format!("draw panicked: {p}"))?.map_err(|e| format!("draw: {e}"))?;
            let draws = multi_values(spec.variant, &o.position).into_iter().map(|(n, v)| (n.to_string(), Some(v))).collect();
            recs.push(Rec {
                stats: o.stats,
                draws,
                draw: o.progress.draw,
                chain: o.progress.chain,
                diverging: o.progress.diverging,
                tuning: o.progress.tuning,
                step_size: o.progress.step_size,
                num_steps: o.progress.num_steps,
            });
        }
        if spec.special {
            inject_special(&mut recs, &mut rng);
        }
        out.push(recs);
    }
    Ok(out)
}

/// Overwrite some recorded values with special ones (type and length preserved).
pub fn inject_special(recs: &mut [Rec], rng: &mut HRng) {
    const F: [f64; 7] = [f64::NAN, f64::INFINITY, f64::NEG_INFINITY, -0.0, 5e-324, 1.7976931348623157e308, -1e-7];
    for r in recs.iter_mut() {
        for (name, v) in r.stats.iter_mut().chain(r.draws.iter_mut()) {
            // identity-like statistics keep their values (the CSV / HashMap readers key on them)
            if SKIP.contains(&name.as_str()) || name == "diverging" || name == "tuning" || !rng.bool(0.25) {
                continue;
            }
            let Some(v) = v.as_mut() else { continue };
            match v {
                Value::ScalarF64(x) => *x = *rng.choose(&F),
                Value::F64(xs) if !xs.is_empty() => {
                    let i = rng.below(xs.len() as u64) as usize;
                    xs[i] = *rng.choose(&F)
                }
                Value::ScalarF32(x) => *x = *rng.choose(&[f32::NAN, f32::INFINITY, -0.0, 1e-45, 3.4e38]),
                Value::F32(xs) if !xs.is_empty() => xs[0] = *rng.choose(&[f32::NAN, f32::NEG_INFINITY, -0.0]),
                Value::ScalarU64(x) => *x = *rng.choose(&[u64::MAX, 0, 1 << 63, (1 << 53) + 1]),
                Value::U64(xs) if !xs.is_empty() => xs[0] = u64::MAX,
                Value::ScalarI64(x) => *x = *rng.choose(&[i64::MIN, i64::MAX, -1, 0]),
                Value::I64(xs) if !xs.is_empty() => xs[0] = i64::MIN,
                Value::ScalarString(s) => *s = rng.choose(&["", "a,b", "line\nbreak", "\u{3b1}\u{3b2}\"q\"", " "]).to_string(),
                Value::Strings(xs) if !xs.is_empty() => xs[0] = String::new(),
                _ => {}
            }
        }
    }
}

// ── settings dispatch ───────────────────────────────────────────────────────

/// A computation generic over the settings type of a preset.
pub trait SettingsFn {
    type Out;
    fn call<S: Settings>(self, settings: S) -> Self::Out;
}

pub fn dispatch<F: SettingsFn>(preset: Preset, j: &J, f: F) -> Result<F::Out, String> {
    fn de<S: Settings>(j: &J) -> Result<S, String> {
        serde_json::from_value(j.clone()).map_err(|e| format!("settings: {e}"))
    }
    Ok(match preset {
        Preset::DiagNuts => f.call(de::<DiagNutsSettings>(j)?),
        Preset::LowRankNuts => f.call(de::<LowRankNutsSettings>(j)?),
        Preset::FlowNuts => f.call(de::<FlowNutsSettings>(j)?),
        Preset::DiagMclmc => f.call(de::<DiagMclmcSettings>(j)?),
        Preset::LowRankMclmc => f.call(de::<LowRankMclmcSettings>(j)?),
        Preset::FlowMclmc => f.call(de::<FlowMclmcSettings>(j)?),
    })
}

// ── schema ──────────────────────────────────────────────────────────────────

#[derive(Clone, Debug)]
pub struct Var {
    pub name: String,
    /// position in the schema == position in the `get_all` vector
    pub pos: usize,
    /// occurrence number among variables with the same name (MCLMC declares `tuning` twice)
    pub occ: usize,
    pub ty: ItemType,
    pub dims: Vec<String>,
    pub shape: Vec<u64>,
    pub event: Option<String>,
    pub is_stat: bool,
}

impl Var {
    pub fn width(&self) -> usize {
        self.shape.iter().product::<u64>() as usize
    }
}

#[derive(Clone, Debug)]
pub struct FullSchema {
    pub stats: Vec<Var>,
    pub draws: Vec<Var>,
}

impl FullSchema {
    pub fn of<S: Settings, M: Math>(s: &S, m: &M) -> Result<FullSchema, String> {
        fn build(
            types: Vec<(String, ItemType)>,
            dims: Vec<(String, Vec<String>)>,
            events: Option<Vec<(String, Option<String>)>>,
            sizes: &HashMap<String, u64>,
            is_stat: bool,
        ) -> Result<Vec<Var>, String> {
            let mut seen: HashMap<String, usize> = HashMap::new();
            let mut out = vec![];
            for (pos, ((name, ty), (n2, d))) in types.into_iter().zip(dims).enumerate() {
                if name != n2 {
                    return Err(format!("schema lists disagree: {name} vs {n2}"));
                }
                let shape = d.iter().map(|x| sizes.get(x).copied().ok_or(format!("no size for dim {x}"))).collect::<Result<Vec<_>, _>>()?;
                let occ = *seen.entry(name.clone()).and_modify(|c| *c += 1).or_insert(0);
                let event = events.as_ref().and_then(|e| e[pos].1.clone());
                out.push(Var { name, pos, occ, ty, dims: d, shape, event, is_stat });
            }
            Ok(out)
        }
        Ok(FullSchema {
            stats: build(s.stat_types(m), s.stat_dims_all(m), Some(s.stat_event_dims(m)), &s.stat_dim_sizes(m), true)?,
            draws: build(s.data_types(m), s.data_dims_all(m), None, &m.dim_sizes(), false)?,
        })
    }
    pub fn vars(&self) -> impl Iterator<Item = &Var> {
        self.stats.iter().chain(self.draws.iter())
    }
    /// Do the recorded names match the schema position by position?
    pub fn matches(&self, r: &Rec) -> bool {
        r.stats.len() == self.stats.len()
            && r.draws.len() == self.draws.len()
            && r.stats.iter().zip(&self.stats).all(|(a, b)| a.0 == b.name)
            && r.draws.iter().zip(&self.draws).all(|(a, b)| a.0 == b.name)
    }
    pub fn event_dims(&self) -> Vec<String> {
        let mut v: Vec<String> = self.stats.iter().filter_map(|s| s.event.clone()).collect();
        v.sort();
        v.dedup();
        v
    }
}

pub fn rec_value<'a>(r: &'a Rec, v: &Var) -> Option<&'a Value> {
    if v.is_stat { r.stats[v.pos].1.as_ref() } else { r.draws[v.pos].1.as_ref() }
}

// ── flat typed columns ──────────────────────────────────────────────────────

#[derive(Clone, Debug)]
pub enum Flat {
    F64(Vec<f64>),
    F32(Vec<f32>),
    I64(Vec<i64>),
    U64(Vec<u64>),
    Bool(Vec<bool>),
    Str(Vec<String>),
}

impl Flat {
    pub fn new(ty: ItemType) -> Flat {
        match ty {
            ItemType::F64 => Flat::F64(vec![]),
            ItemType::F32 => Flat::F32(vec![]),
            ItemType::U64 => Flat::U64(vec![]),
            ItemType::Bool => Flat::Bool(vec![]),
            ItemType::String => Flat::Str(vec![]),
            ItemType::I64 | ItemType::DateTime64(_) | ItemType::TimeDelta64(_) => Flat::I64(vec![]),
        }
    }
    pub fn len(&self) -> usize {
        match self {
            Flat::F64(v) => v.len(),
            Flat::F32(v) => v.len(),
            Flat::I64(v) => v.len(),
            Flat::U64(v) => v.len(),
            Flat::Bool(v) => v.len(),
            Flat::Str(v) => v.len(),
        }
    }
    pub fn ty_name(&self) -> &'static str {
        match self {
            Flat::F64(_) => "f64",
            Flat::F32(_) => "f32",
            Flat::I64(_) => "i64",
            Flat::U64(_) => "u64",
            Flat::Bool(_) => "bool",
            Flat::Str(_) => "string",
        }
    }
    /// Append a recorded value (flattened); Err on a type mismatch.
    pub fn push(&mut self, v: &Value) -> Result<(), String> {
        match (&mut *self, v) {
            (Flat::F64(a), Value::ScalarF64(x)) => a.push(*x),
            (Flat::F64(a), Value::F64(x)) => a.extend(x),
            (Flat::F32(a), Value::ScalarF32(x)) => a.push(*x),
            (Flat::F32(a), Value::F32(x)) => a.extend(x),
            (Flat::I64(a), Value::ScalarI64(x)) => a.push(*x),
            (Flat::I64(a), Value::I64(x)) => a.extend(x),
            (Flat::U64(a), Value::ScalarU64(x)) => a.push(*x),
            (Flat::U64(a), Value::U64(x)) => a.extend(x),
            (Flat::Bool(a), Value::ScalarBool(x)) => a.push(*x),
            (Flat::Bool(a), Value::Bool(x)) => a.extend(x),
            (Flat::Str(a), Value::ScalarString(x)) => a.push(x.clone()),
            (Flat::Str(a), Value::Strings(x)) => a.extend(x.iter().cloned()),
            (s, v) => return Err(format!("value {v:?} for a column of type {}", s.ty_name())),
        }
        Ok(())
    }
    /// Bitwise equality of element i with element j of `o` (all NaNs are equal).
    pub fn eq_at(&self, i: usize, o: &Flat, j: usize) -> bool {
        match (self, o) {
            (Flat::F64(a), Flat::F64(b)) => a[i].to_bits() == b[j].to_bits() || (a[i].is_nan() && b[j].is_nan()),
            (Flat::F32(a), Flat::F32(b)) => a[i].to_bits() == b[j].to_bits() || (a[i].is_nan() && b[j].is_nan()),
            (Flat::I64(a), Flat::I64(b)) => a[i] == b[j],
            (Flat::U64(a), Flat::U64(b)) => a[i] == b[j],
            (Flat::Bool(a), Flat::Bool(b)) => a[i] == b[j],
            (Flat::Str(a), Flat::Str(b)) => a[i] == b[j],
            _ => false,
        }
    }
    /// Is element i the Zarr fill value / ndarray default of its type?
    pub fn is_fill(&self, i: usize, nan_fill: bool) -> bool {
        match self {
            Flat::F64(a) => if nan_fill { a[i].is_nan() } else { a[i].to_bits() == 0 },
            Flat::F32(a) => if nan_fill { a[i].is_nan() } else { a[i].to_bits() == 0 },
            Flat::I64(a) => a[i] == 0,
            Flat::U64(a) => a[i] == 0,
            Flat::Bool(a) => !a[i],
            Flat::Str(a) => a[i].is_empty(),
        }
    }
    pub fn show(&self, i: usize) -> String {
        if i >= self.len() {
            return "<out of range>".into();
        }
        match self {
            Flat::F64(a) => format!("{:?} (bits {:#x})", a[i], a[i].to_bits()),
            Flat::F32(a) => format!("{:?}f32", a[i]),
            Flat::I64(a) => format!("{}", a[i]),
            Flat::U64(a) => format!("{}", a[i]),
            Flat::Bool(a) => format!("{}", a[i]),
            Flat::Str(a) => format!("{:?}", a[i]),
        }
    }
    /// First index (0..n) where self[a0+k] != o[b0+k].
    pub fn first_diff(&self, a0: usize, o: &Flat, b0: usize, n: usize) -> Option<usize> {
        (0..n).find(|&k| a0 + k >= self.len() || b0 + k >= o.len() || !self.eq_at(a0 + k, o, b0 + k))
    }
    pub fn append(&mut self, o: &Flat, from: usize, n: usize) {
        match (self, o) {
            (Flat::F64(a), Flat::F64(b)) => a.extend_from_slice(&b[from..from + n]),
            (Flat::F32(a), Flat::F32(b)) => a.extend_from_slice(&b[from..from + n]),
            (Flat::I64(a), Flat::I64(b)) => a.extend_from_slice(&b[from..from + n]),
            (Flat::U64(a), Flat::U64(b)) => a.extend_from_slice(&b[from..from + n]),
            (Flat::Bool(a), Flat::Bool(b)) => a.extend_from_slice(&b[from..from + n]),
            (Flat::Str(a), Flat::Str(b)) => a.extend_from_slice(&b[from..from + n]),
            _ => {}
        }
    }
}

/// Expected compacted column of a variable name for one chain: every present value of every
/// occurrence of the name, in recording order (this is what a per-name buffer receives).
/// Returns the flattened values and the number of pushes.
pub fn expected_pushes(recs: &[Rec], vars: &[&Var], keep: impl Fn(&Rec) -> bool) -> Result<(Flat, usize), String> {
    let mut f = Flat::new(vars[0].ty);
    let mut n = 0;
    for r in recs.iter().filter(|r| keep(r)) {
        for v in vars {
            if let Some(val) = rec_value(r, v) {
                f.push(val).map_err(|e| format!("{}: {e}", v.name))?;
                n += 1;
            }
        }
    }
    Ok((f, n))
}

/// Compacted read-back of one backend for cross-backend comparison:
/// (chain, is_stat, name) -> all present values in order.
pub type Compact = BTreeMap<(usize, bool, String), Flat>;

#[derive(Clone, Debug)]
pub struct Finding {
    /// signature suffix after "C14:<backend>:" / "C15:<writer>:<store>:"
    pub sig: String,
    pub detail: String,
}

/// Stable classification of an error / panic message of a backend.
pub fn classify(phase: &str, msg: &str) -> String {
    let panic = msg.contains(" at ") && (msg.contains(".rs:"));
    let kind = if panic { "panic" } else { "error" };
    let tail = |pat: &str| msg.split(pat).nth(1).map(|s| s.split([' ', ':', '\n']).next().unwrap_or("").to_string());
    if let Some(n) = tail("Type mismatch when combining stats for ") {
        return format!("{phase}_{kind}:{n}");
    }
    if let Some(n) = tail("Type mismatch when combining draws for ") {
        return format!("{phase}_{kind}:draw_variable:{n}");
    }
    if msg.contains("Unknown posterior variable name") {
        return format!("{phase}_{kind}:unknown_posterior_variable");
    }
    if msg.contains("Unknown param name") {
        return format!("{phase}_{kind}:unknown_param_name");
    }
    if msg.contains("Mismatched item type") {
        return format!("{phase}_{kind}:mismatched_item_type");
    }
    if msg.contains("Vector assignment with complex indices") {
        return format!("{phase}_{kind}:vector_assignment_not_implemented");
    }
    if msg.contains("invalid node path") {
        return format!("{phase}_{kind}:invalid_node_path");
    }
    if msg.contains("Missing draw value") {
        return format!("{phase}_{kind}:missing_draw_value");
    }
    // generic: letters only, bounded
    let s: String = msg.chars().take(60).map(|c| if c.is_ascii_alphabetic() { c.to_ascii_lowercase() } else { '_' }).collect();
    let s = s.split('_').filter(|p| !p.is_empty()).take(6).collect::<Vec<_>>().join("_");
    format!("{phase}_{kind}:{s}")
}

// ── generic driver through the storage traits ───────────────────────────────

#[derive(Clone, Copy, Debug, PartialEq)]
pub enum Step {
    /// record the next draw of this chain
    Rec(usize),
    /// flush every chain, then call the hook
    Flush,
    /// flush + inspect every chain and the trace, then call the hook
    Inspect,
}

pub type Fin<C> = <<C as StorageConfig>::Storage as TraceStorage>::Finalized;

pub enum Hook<'a, F> {
    /// after a Flush step: records so far per chain
    Flushed { step: usize, recorded: &'a [usize], failed: &'a [bool] },
    Inspected { step: usize, recorded: &'a [usize], failed: &'a [bool], result: &'a F },
}

pub struct DriveOut<F> {
    pub finalized: Option<F>,
    /// (phase, message, chain, record index)
    pub errors: Vec<(String, String, usize, usize)>,
    pub recorded: Vec<usize>,
    /// chains whose recording failed (their contents are not compared)
    pub failed: Vec<bool>,
}

/// Replay `streams` into the backend `config` following `steps`, then finalize everything.
pub fn drive<C, S, M, H>(config: C, settings: &S, math: &M, streams: &[Vec<Rec>], steps: &[Step], mut hook: H) -> DriveOut<Fin<C>>
where
    C: StorageConfig,
    S: Settings,
    M: Math,
    H: FnMut(Hook<'_, Fin<C>>),
{
    let nc = streams.len();
    let mut out = DriveOut { finalized: None, errors: vec![], recorded: vec![0; nc], failed: vec![false; nc] };
    let trace = match guard(|| config.new_trace(settings, math)) {
        Ok(Ok(t)) => t,
        Ok(Err(e)) => {
            out.errors.push(("new_trace".into(), format!("{e:#}"), 0, 0));
            return out;
        }
        Err(p) => {
            out.errors.push(("new_trace".into(), p, 0, 0));
            return out;
        }
    };
    let mut chains = vec![];
    for c in 0..nc {
        match guard(|| trace.initialize_trace_for_chain(c as u64)) {
            Ok(Ok(ch)) => chains.push(ch),
            Ok(Err(e)) => {
                out.errors.push(("init_chain".into(), format!("{e:#}"), c, 0));
                return out;
            }
            Err(p) => {
                out.errors.push(("init_chain".into(), p, c, 0));
                return out;
            }
        }
    }
    for (si, step) in steps.iter().enumerate() {
        match *step {
            Step::Rec(c) => {
                let i = out.recorded[c];
                if out.failed[c] || i >= streams[c].len() {
                    continue;
                }
                let r = &streams[c][i];
                let stats: Vec<(&str, Option<Value>)> = r.stats.iter().map(|(n, v)| (n.as_str(), v.clone())).collect();
                let draws: Vec<(&str, Option<Value>)> = r.draws.iter().map(|(n, v)| (n.as_str(), v.clone())).collect();
                let prog = r.progress();
                let ch = &mut chains[c];
                match guard(|| ch.record_sample(settings, stats, draws, &prog)) {
                    Ok(Ok(())) => out.recorded[c] += 1,
                    Ok(Err(e)) => {
                        out.errors.push(("record".into(), format!("{e:#}"), c, i));
                        out.failed[c] = true;
                    }
                    Err(p) => {
                        out.errors.push(("record".into(), p, c, i));
                        out.failed[c] = true;
                    }
                }
            }
            Step::Flush | Step::Inspect => {
                // self-test knob of the monitor: without the flush call the crash-point oracle must fire
                let skip_flush = std::env::var("VERIF_SELFTEST_SKIP_FLUSH").is_ok();
                for (c, ch) in chains.iter().enumerate() {
                    if skip_flush {
                        break;
                    }
                    match guard(|| ch.flush()) {
                        Ok(Ok(())) => {}
                        Ok(Err(e)) => out.errors.push(("flush".into(), format!("{e:#}"), c, out.recorded[c])),
                        Err(p) => out.errors.push(("flush".into(), p, c, out.recorded[c])),
                    }
                }
                if *step == Step::Flush {
                    hook(Hook::Flushed { step: si, recorded: &out.recorded, failed: &out.failed });
                    continue;
                }
                let mut parts = vec![];
                for (c, ch) in chains.iter().enumerate() {
                    match guard(|| ch.inspect()) {
                        Ok(r) => parts.push(r),
                        Err(p) => {
                            out.errors.push(("inspect".into(), p.clone(), c, out.recorded[c]));
                            parts.push(Err(anyhow::anyhow!(p)));
                        }
                    }
                }
                if parts.iter().any(|p| p.is_err()) && parts.iter().any(|p| matches!(p, Err(e) if e.to_string().contains(" at "))) {
                    // a chain inspect panicked: the trace level inspect cannot be judged
                    continue;
                }
                match guard(|| trace.inspect(parts)) {
                    Ok(Ok((err, f))) => {
                        if let Some(e) = err {
                            out.errors.push(("inspect".into(), format!("{e:#}"), 0, 0));
                        }
                        hook(Hook::Inspected { step: si, recorded: &out.recorded, failed: &out.failed, result: &f });
                    }
                    Ok(Err(e)) => out.errors.push(("inspect".into(), format!("{e:#}"), 0, 0)),
                    Err(p) => out.errors.push(("inspect".into(), p, 0, 0)),
                }
            }
        }
    }
    let mut parts = vec![];
    let mut chain_panic = false;
    for (c, ch) in chains.into_iter().enumerate() {
        match guard(|| ch.finalize()) {
            Ok(r) => {
                if let Err(e) = &r {
                    out.errors.push(("finalize".into(), format!("{e:#}"), c, out.recorded[c]));
                }
                parts.push(r)
            }
            Err(p) => {
                out.errors.push(("finalize".into(), p.clone(), c, out.recorded[c]));
                parts.push(Err(anyhow::anyhow!(p)));
                chain_panic = true;
            }
        }
    }
    match guard(|| trace.finalize(parts)) {
        Ok(Ok((err, f))) => {
            if let Some(e) = err {
                if !chain_panic {
                    out.errors.push(("finalize".into(), format!("{e:#}"), 0, 0));
                }
            } else {
                out.finalized = Some(f);
            }
        }
        Ok(Err(e)) => out.errors.push(("finalize".into(), format!("{e:#}"), 0, 0)),
        Err(p) => out.errors.push(("finalize".into(), p, 0, 0)),
    }
    out
}

/// Round-robin record steps for all chains with optional Flush / Inspect steps after given
/// global record rounds (1-based round numbers).
pub fn lockstep(streams: &[Vec<Rec>], flush_after: &dyn Fn(usize) -> bool, inspect_after: Option<usize>) -> Vec<Step> {
    let n = streams.iter().map(|s| s.len()).max().unwrap_or(0);
    let mut steps = vec![];
    if inspect_after == Some(0) {
        steps.push(Step::Inspect);
    }
    for i in 0..n {
        for (c, s) in streams.iter().enumerate() {
            if i < s.len() {
                steps.push(Step::Rec(c));
            }
        }
        if flush_after(i + 1) {
            steps.push(Step::Flush);
        }
        if inspect_after == Some(i + 1) {
            steps.push(Step::Inspect);
        }
    }
    steps
}

// ── Zarr stores ─────────────────────────────────────────────────────────────

pub fn runtime() -> &'static tokio::runtime::Runtime {
    static RT: OnceLock<tokio::runtime::Runtime> = OnceLock::new();
    RT.get_or_init(|| tokio::runtime::Builder::new_multi_thread().worker_threads(8).enable_all().build().expect("tokio runtime"))
}

struct TokioSpawnBlocking;
impl zarrs::storage::storage_adapter::sync_to_async::SyncToAsyncSpawnBlocking for TokioSpawnBlocking {
    fn spawn_blocking<F, R>(&self, f: F) -> impl std::future::Future<Output = R> + Send
    where
        F: FnOnce() -> R + Send + 'static,
        R: Send + 'static,
    {
        async move { tokio::task::spawn_blocking(f).await.unwrap() }
    }
}

struct TokioBlockOn(tokio::runtime::Handle);
impl zarrs::storage::storage_adapter::async_to_sync::AsyncToSyncBlockOn for TokioBlockOn {
    fn block_on<F: core::future::Future>(&self, future: F) -> F::Output {
        self.0.block_on(future)
    }
}

#[derive(Clone, Copy, Debug, PartialEq, Eq)]
pub enum Writer {
    /// `ZarrConfig`
    Sync,
    /// `ZarrAsyncConfig` over zarrs' sync-to-async adapter (writes run on tokio's blocking pool)
    AsyncAdapter,
    /// `ZarrAsyncConfig` over `zarrs_object_store` (InMemory / LocalFileSystem), as in the example
    AsyncObject,
}

impl Writer {
    pub fn name(&self) -> &'static str {
        match self {
            Writer::Sync => "zarr_sync",
            _ => "zarr_async",
        }
    }
    pub fn tag(&self) -> &'static str {
        match self {
            Writer::Sync => "sync",
            Writer::AsyncAdapter => "async_adapter",
            Writer::AsyncObject => "async_object_store",
        }
    }
    pub fn from_tag(s: &str) -> Writer {
        match s {
            "sync" => Writer::Sync,
            "async_adapter" => Writer::AsyncAdapter,
            _ => Writer::AsyncObject,
        }
    }
}

/// A Zarr store with the handles needed to write (sync or async) and to read independently.
pub struct ZStore {
    pub fs: bool,
    pub writer: Writer,
    dir: Option<tempfile::TempDir>,
    /// synchronous view of the live store (the reader never uses the writer's array objects)
    view: Arc<dyn ReadableListableStorageTraits>,
    sync_store: Option<ReadableWritableListableStorage>,
    async_store: Option<AsyncReadableWritableListableStorage>,
}

impl ZStore {
    pub fn new(fs: bool, writer: Writer) -> Result<ZStore, String> {
        let dir = if fs { Some(tempfile::tempdir().map_err(|e| e.to_string())?) } else { None };
        let handle = runtime().handle().clone();
        match writer {
            Writer::Sync | Writer::AsyncAdapter => {
                let store: ReadableWritableListableStorage = match &dir {
                    Some(d) => Arc::new(zarrs::filesystem::FilesystemStore::new(d.path()).map_err(|e| e.to_string())?),
                    None => Arc::new(MemoryStore::new()),
                };
                let view: Arc<dyn ReadableListableStorageTraits> = store.clone().readable_listable();
                let async_store: Option<AsyncReadableWritableListableStorage> = if writer == Writer::AsyncAdapter {
                    Some(Arc::new(zarrs::storage::storage_adapter::sync_to_async::SyncToAsyncStorageAdapter::new(store.clone(), TokioSpawnBlocking)))
                } else {
                    None
                };
                Ok(ZStore { fs, writer, dir, view, sync_store: Some(store), async_store })
            }
            Writer::AsyncObject => {
                let obj: Arc<dyn object_store::ObjectStore> = match &dir {
                    Some(d) => Arc::new(object_store::local::LocalFileSystem::new_with_prefix(d.path()).map_err(|e| e.to_string())?),
                    None => Arc::new(object_store::memory::InMemory::new()),
                };
                let astore = Arc::new(zarrs_object_store::AsyncObjectStore::new(obj));
                let view: Arc<dyn ReadableListableStorageTraits> =
                    Arc::new(zarrs::storage::storage_adapter::async_to_sync::AsyncToSyncStorageAdapter::new(astore.clone(), TokioBlockOn(handle)));
                Ok(ZStore { fs, writer, dir, view, sync_store: None, async_store: Some(astore) })
            }
        }
    }
    pub fn store_name(&self) -> &'static str {
        if self.fs { "fs" } else { "mem" }
    }
    pub fn sync_config(&self) -> nuts_rs::ZarrConfig {
        nuts_rs::ZarrConfig::new(self.sync_store.clone().expect("sync store"))
    }
    pub fn async_config(&self) -> nuts_rs::ZarrAsyncConfig {
        nuts_rs::ZarrAsyncConfig::new(runtime().handle().clone(), self.async_store.clone().expect("async store"))
    }
    /// What a process that stops now leaves behind: filesystem stores are copied file by file
    /// into a fresh temporary directory and re-opened; memory stores are copied key by key.
    pub fn snapshot(&self) -> Result<Snapshot, String> {
        if let Some(d) = &self.dir {
            let copy = tempfile::tempdir().map_err(|e| e.to_string())?;
            copy_dir(d.path(), copy.path()).map_err(|e| format!("copy store directory: {e}"))?;
            let st = zarrs::filesystem::FilesystemStore::new(copy.path()).map_err(|e| e.to_string())?;
            return Ok(Snapshot { store: Arc::new(st), _dir: Some(copy) });
        }
        let dst = MemoryStore::new();
        let keys = self.view.list().map_err(|e| format!("list: {e}"))?;
        for k in keys.iter() {
            if let Some(b) = self.view.get(k).map_err(|e| format!("get {k}: {e}"))? {
                dst.set(k, b).map_err(|e| e.to_string())?;
            }
        }
        Ok(Snapshot { store: Arc::new(dst), _dir: None })
    }
}

pub struct Snapshot {
    pub store: Arc<dyn ReadableListableStorageTraits>,
    _dir: Option<tempfile::TempDir>,
}

fn copy_dir(src: &std::path::Path, dst: &std::path::Path) -> std::io::Result<()> {
    std::fs::create_dir_all(dst)?;
    for e in std::fs::read_dir(src)? {
        let e = e?;
        let to = dst.join(e.file_name());
        if e.file_type()?.is_dir() {
            copy_dir(&e.path(), &to)?;
        } else {
            std::fs::copy(e.path(), to)?;
        }
    }
    Ok(())
}

// ── independent Zarr reader and comparison ──────────────────────────────────

#[derive(Clone, Copy, Debug, PartialEq, Eq)]
pub enum ZKind {
    Open,
    Type,
    Shape,
    DimNames,
    /// expected data, found the fill value
    Missing,
    /// expected data, found something else
    Wrong,
    /// something other than the fill value after the recorded rows
    Garbage,
    EvTruncated,
    EvOversized,
    WarmupStored,
}

#[derive(Clone, Debug)]
pub struct ZIssue {
    pub kind: ZKind,
    /// "posterior", "warmup_sample_stats", ...
    pub section: String,
    pub name: String,
    pub event: Option<String>,
    pub chain: usize,
    pub row: usize,
    pub detail: String,
}

pub struct ZView<'a> {
    pub schema: &'a FullSchema,
    /// recorded prefix per chain
    pub recs: Vec<&'a [Rec]>,
    pub n_tune: u64,
    pub n_draws: u64,
    /// "" or "/grp"
    pub group: &'a str,
    pub finalized: bool,
    pub store_warmup: bool,
}

#[derive(Default)]
pub struct ZOut {
    pub issues: Vec<ZIssue>,
    pub arrays: u64,
    pub values: u64,
    pub compact: Compact,
    /// (section/name, chain) -> number of leading expected rows found intact
    pub ok_rows: BTreeMap<(String, usize), usize>,
}

fn zarr_type_name(ty: ItemType) -> &'static str {
    match ty {
        ItemType::F64 => "float64",
        ItemType::F32 => "float32",
        ItemType::U64 => "uint64",
        ItemType::I64 => "int64",
        ItemType::Bool => "bool",
        ItemType::String => "string",
        _ => "other",
    }
}

type RArray = zarrs::array::Array<dyn ReadableListableStorageTraits>;

fn zarr_read_all(a: &RArray, ty: ItemType) -> Result<Flat, String> {
    let sub = a.subset_all();
    if a.shape().iter().any(|&s| s == 0) {
        return Ok(Flat::new(ty));
    }
    let r = guard(|| -> Result<Flat, zarrs::array::ArrayError> {
        Ok(match ty {
            ItemType::F64 => Flat::F64(a.retrieve_array_subset::<Vec<f64>>(&sub)?),
            ItemType::F32 => Flat::F32(a.retrieve_array_subset::<Vec<f32>>(&sub)?),
            ItemType::U64 => Flat::U64(a.retrieve_array_subset::<Vec<u64>>(&sub)?),
            ItemType::Bool => Flat::Bool(a.retrieve_array_subset::<Vec<bool>>(&sub)?),
            ItemType::String => Flat::Str(a.retrieve_array_subset::<Vec<String>>(&sub)?),
            _ => Flat::I64(a.retrieve_array_subset::<Vec<i64>>(&sub)?),
        })
    });
    match r {
        Ok(Ok(f)) => Ok(f),
        Ok(Err(e)) => Err(format!("{e}")),
        Err(p) => Err(p),
    }
}

/// Open every array of the trace with a fresh reader and compare it with the recorded prefix.
pub fn check_zarr(store: &Arc<dyn ReadableListableStorageTraits>, v: &ZView, out: &mut ZOut) {
    let nc = v.recs.len();
    let mut warmup_stored_reported = false;
    // group variables by name (a name declared twice shares one array / buffer)
    let mut groups: Vec<Vec<&Var>> = vec![];
    for var in v.schema.vars() {
        if var.is_stat && SKIP.contains(&var.name.as_str()) {
            continue;
        }
        if !var.is_stat && SKIP.contains(&var.name.as_str()) {
            continue;
        }
        match groups.iter_mut().find(|g| g[0].is_stat == var.is_stat && g[0].name == var.name) {
            Some(g) => g.push(var),
            None => groups.push(vec![var]),
        }
    }
    for g in &groups {
        let var = g[0];
        let w = var.width();
        // a name declared twice (MCLMC `tuning`): one array, compared by draw with the last occurrence
        let g_eff: Vec<&Var> = vec![*g.last().unwrap()];
        // all fields of the event dimension of this variable
        let dim_fields: Vec<&Var> = match &var.event {
            Some(ev) => v.schema.stats.iter().filter(|o| o.event.as_ref() == Some(ev)).collect(),
            None => vec![],
        };
        let mut compact_cols: Vec<Flat> = (0..nc).map(|_| Flat::new(var.ty)).collect();
        for warm in [true, false] {
            let section = format!("{}{}", if warm { "warmup_" } else { "" }, if var.is_stat { "sample_stats" } else { "posterior" });
            let hint = if warm { v.n_tune } else { v.n_draws };
            let path = format!("{}/{}/{}", v.group, section, var.name);
            let issue = |kind: ZKind, chain: usize, row: usize, detail: String| ZIssue {
                kind,
                section: section.clone(),
                name: var.name.clone(),
                event: var.event.clone(),
                chain,
                row,
                detail,
            };
            // expectation per chain
            let mut exp: Vec<(Flat, usize)> = vec![];
            for c in 0..nc {
                match expected_pushes(v.recs[c], &g_eff, |r| r.tuning == warm) {
                    Ok(e) => exp.push(e),
                    Err(e) => {
                        out.issues.push(issue(ZKind::Type, c, 0, format!("recorded value does not fit the declared type: {e}")));
                        exp.push((Flat::new(var.ty), 0));
                    }
                }
            }
            let max_count = exp.iter().map(|e| e.1).max().unwrap_or(0);
            // number of events of the dimension (draws on which any of its fields is present)
            let max_events = (0..nc)
                .map(|c| v.recs[c].iter().filter(|r| r.tuning == warm && dim_fields.iter().any(|f| rec_value(r, f).is_some())).count())
                .max()
                .unwrap_or(0);
            let arr = match guard(|| RArray::open(store.clone(), &path)) {
                Ok(Ok(a)) => a,
                Ok(Err(e)) => {
                    if !(warm && !v.store_warmup) {
                        out.issues.push(issue(ZKind::Open, 0, 0, format!("cannot open {path}: {e}")));
                    }
                    continue;
                }
                Err(p) => {
                    out.issues.push(issue(ZKind::Open, 0, 0, format!("opening {path} panicked: {p}")));
                    continue;
                }
            };
            out.arrays += 1;
            // declared type, dimension names, shape
            let meta = serde_json::to_value(arr.metadata()).unwrap_or(J::Null);
            let dt = meta.get("data_type").map(|d| d.as_str().map(|s| s.to_string()).unwrap_or_else(|| d.to_string())).unwrap_or_default();
            if dt != zarr_type_name(var.ty) {
                out.issues.push(issue(ZKind::Type, 0, 0, format!("{path}: data_type {dt}, declared {:?}", var.ty)));
                continue;
            }
            let primary = var.event.clone().unwrap_or_else(|| "draw".to_string());
            let want_names: Vec<Option<String>> =
                ["chain".to_string(), primary].into_iter().chain(var.dims.iter().cloned()).map(Some).collect();
            if arr.dimension_names().as_ref() != Some(&want_names) {
                out.issues.push(issue(ZKind::DimNames, 0, 0, format!("{path}: dimension names {:?}, expected {:?}", arr.dimension_names(), want_names)));
            }
            let shape = arr.shape().to_vec();
            if shape.len() != 2 + var.shape.len() || shape[0] != nc as u64 || shape[2..] != var.shape[..] {
                out.issues.push(issue(ZKind::Shape, 0, 0, format!("{path}: shape {shape:?}, expected [{nc}, N, {:?}]", var.shape)));
                continue;
            }
            let n_act = shape[1] as usize;
            let is_event = var.event.is_some();
            if !(is_event && v.finalized) && n_act as u64 != hint {
                out.issues.push(issue(ZKind::Shape, 0, 0, format!("{path}: {n_act} rows, expected the hinted {hint}")));
            }
            let act = match zarr_read_all(&arr, var.ty) {
                Ok(a) => a,
                Err(e) => {
                    out.issues.push(issue(ZKind::Open, 0, 0, format!("reading {path} failed: {e}")));
                    continue;
                }
            };
            if act.len() != nc * n_act * w {
                out.issues.push(issue(ZKind::Shape, 0, 0, format!("{path}: read {} elements for shape {shape:?}", act.len())));
                continue;
            }
            // store_warmup(false): nothing recorded during warmup may be present
            if warm && !v.store_warmup {
                let present = (0..nc).any(|c| {
                    let n = exp[c].1.min(n_act);
                    n > 0 && (0..n * w).any(|k| !act.is_fill(c * n_act * w + k, true))
                });
                if present && !warmup_stored_reported {
                    warmup_stored_reported = true;
                    out.issues.push(issue(ZKind::WarmupStored, 0, 0, format!("{path} holds the {max_count} warmup rows although store_warmup(false) was configured")));
                }
                continue;
            }
            if is_event && v.finalized && n_act > max_events {
                out.issues.push(issue(ZKind::EvOversized, 0, 0, format!("{path}: event axis has length {n_act} but at most {max_events} events occurred in a chain")));
            }
            for c in 0..nc {
                let (e, count) = (&exp[c].0, exp[c].1);
                let base = c * n_act * w;
                if count > n_act {
                    let kind = if is_event { ZKind::EvTruncated } else { ZKind::Shape };
                    out.issues.push(issue(kind, c, n_act, format!("{path}: chain {c} recorded {count} rows but the array keeps {n_act}")));
                }
                let n = count.min(n_act);
                let mut ok = 0;
                let mut intact = true;
                for r in 0..n {
                    out.values += w as u64;
                    match e.first_diff(r * w, &act, base + r * w, w) {
                        None => {
                            if intact {
                                ok += 1;
                            }
                        }
                        Some(k) => {
                            let all_fill = (0..w).all(|j| act.is_fill(base + r * w + j, true));
                            let exp_fill = (0..w).all(|j| e.is_fill(r * w + j, true));
                            let kind = if all_fill && !exp_fill { ZKind::Missing } else { ZKind::Wrong };
                            if intact || out.issues.len() < 50 {
                                out.issues.push(issue(
                                    kind,
                                    c,
                                    r,
                                    format!("{path}[chain {c}, row {r}, element {k}] = {} but {} was recorded ({count} rows recorded)", act.show(base + r * w + k), e.show(r * w + k)),
                                ));
                            }
                            intact = false;
                        }
                    }
                }
                out.ok_rows.insert((format!("{section}/{}", var.name), c), ok);
                // rows after the recorded ones hold the fill value
                if let Some(k) = (n * w..n_act * w).find(|&k| !act.is_fill(base + k, true)) {
                    out.issues.push(issue(ZKind::Garbage, c, k / w.max(1), format!("{path}[chain {c}, row {}] = {} after the {count} recorded rows", k / w.max(1), act.show(base + k))));
                }
                compact_cols[c].append(&act, base, n * w);
            }
        }
        if v.finalized {
            for (c, col) in compact_cols.into_iter().enumerate() {
                out.compact.insert((c, var.is_stat, var.name.clone()), col);
            }
        }
    }
}
