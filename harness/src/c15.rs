//! C15 — flushed Zarr traces are complete at every flush point.
//!
//! Crash-point enumeration: a recorded stream is replayed draw by draw into the real Zarr
//! backends (sync writer, async writer over zarrs' sync-to-async adapter, async writer over
//! `zarrs_object_store`; memory and filesystem stores). After every flush the store is
//! snapshotted (filesystem: the directory is copied and the copy re-opened) and a fresh zarrs
//! reader compares every array of every chain with the recorded prefix. Regions that were found
//! intact at an earlier crash point must stay intact after later records, flushes and finalize.
//! A few cases go through `Sampler::pause / flush / resume` of the parallel sampler instead.

use std::collections::{BTreeMap, HashMap};
use std::time::Duration;

use nuts_rs::verif::{StorageConfig, TraceStorage};
use nuts_rs::{Math, Sampler, SamplerWaitResult, Settings};
use serde_json::json;

use crate::Args;
use crate::chains::ALL_PRESETS;
use crate::report::Report;
use crate::storage_util::*;
use crate::util::{Fnv, HRng, guard};

fn replay_kind() -> String {
    "replay".into()
}

#[derive(Clone, Debug, serde::Serialize, serde::Deserialize)]
struct Case {
    /// "replay": through the storage traits; "sampler": Sampler::pause/flush/resume
    #[serde(default = "replay_kind")]
    kind: String,
    spec: StreamSpec,
    /// "sync" | "async_adapter" | "async_object_store"
    writer: String,
    fs: bool,
    chunk: u64,
    /// flush (= crash point) after every `stride` record rounds
    stride: u64,
    /// chain c starts c*lag rounds late, so chains are in different phases at a crash point
    lag: u64,
    group: bool,
}

#[derive(Default)]
struct CaseOut {
    findings: Vec<Finding>,
    crash_points: u64,
    arrays: u64,
    values: u64,
    inconclusive: Vec<String>,
    streams: Vec<Vec<Rec>>,
    /// one line per crash point (printed by --replay)
    log: Vec<String>,
}

/// Crash-point bookkeeping shared by the replay and the sampler driven cases.
struct Tracker<'a> {
    schema: &'a FullSchema,
    case: &'a Case,
    /// (section/name, chain) -> rows found intact at an earlier crash point
    best_ok: BTreeMap<(String, usize), usize>,
    findings: Vec<Finding>,
    crash_points: u64,
    arrays: u64,
    values: u64,
    inconclusive: Vec<String>,
    log: Vec<String>,
}

impl<'a> Tracker<'a> {
    fn new(schema: &'a FullSchema, case: &'a Case) -> Self {
        Tracker { schema, case, best_ok: BTreeMap::new(), findings: vec![], crash_points: 0, arrays: 0, values: 0, inconclusive: vec![], log: vec![] }
    }
    fn duplicated(&self, name: &str) -> bool {
        self.schema.stats.iter().filter(|v| v.name == name).count() > 1
    }
    /// Snapshot the store and compare it with the recorded prefix `recs`.
    fn crash_point(&mut self, store: &ZStore, recs: Vec<&[Rec]>, finalized: bool, what: &str) {
        let snap = match store.snapshot() {
            Ok(s) => s,
            Err(e) => {
                self.inconclusive.push(format!("snapshot failed: {}", e.split(':').next().unwrap_or("")));
                return;
            }
        };
        self.crash_points += 1;
        let lens: Vec<usize> = recs.iter().map(|r| r.len()).collect();
        let no_sampling = recs.iter().all(|r| r.iter().all(|x| x.tuning));
        let view = ZView {
            schema: self.schema,
            recs,
            n_tune: self.case.spec.num_tune,
            n_draws: self.case.spec.num_draws,
            group: if self.case.group { "/grp" } else { "" },
            finalized,
            store_warmup: true,
        };
        let mut zo = ZOut::default();
        check_zarr(&snap.store, &view, &mut zo);
        self.arrays += zo.arrays;
        self.values += zo.values;
        self.log.push(format!("{what}: records per chain {lens:?}, {} arrays read, {} values compared, {} issues", zo.arrays, zo.values, zo.issues.len()));
        for i in &zo.issues {
            let key = (format!("{}/{}", i.section, i.name), i.chain);
            let before = self.best_ok.get(&key).copied().unwrap_or(0);
            let ev = i.event.clone().unwrap_or_default();
            let sig = if self.duplicated(&i.name) {
                // MCLMC declares `tuning` twice: its buffer receives two values per draw
                format!("duplicate_statistic_pushed_twice:{}", i.name)
            } else if !finalized {
                match i.kind {
                    ZKind::Missing | ZKind::Wrong if i.row < before => "earlier_flushed_data_corrupted".to_string(),
                    ZKind::Missing => "flushed_prefix_incomplete".to_string(),
                    ZKind::Wrong => "flushed_prefix_mismatch".to_string(),
                    ZKind::Garbage => "rows_beyond_recorded_prefix".to_string(),
                    ZKind::Open => "array_unreadable_after_flush".to_string(),
                    ZKind::Type | ZKind::Shape | ZKind::DimNames => "array_metadata_mismatch".to_string(),
                    ZKind::EvTruncated | ZKind::EvOversized | ZKind::WarmupStored => "event_array_shape_after_flush".to_string(),
                }
            } else {
                match i.kind {
                    ZKind::EvTruncated | ZKind::EvOversized if no_sampling => format!("finalize_drops_warmup_events_without_sampling_phase:{ev}"),
                    ZKind::EvTruncated => format!("finalize_truncates_flushed_events:{ev}"),
                    ZKind::EvOversized => format!("finalize_event_array_oversized:{ev}"),
                    ZKind::Missing | ZKind::Wrong if i.row < before => "finalize_corrupts_flushed_data".to_string(),
                    ZKind::Missing => "after_finalize_incomplete".to_string(),
                    ZKind::Wrong => "after_finalize_mismatch".to_string(),
                    ZKind::Garbage => "rows_beyond_recorded_after_finalize".to_string(),
                    ZKind::Open => "array_unreadable_after_finalize".to_string(),
                    _ => "array_metadata_mismatch_after_finalize".to_string(),
                }
            };
            self.findings.push(Finding { sig, detail: format!("{what} (records per chain {lens:?}): {}", i.detail) });
        }
        for (k, v) in zo.ok_rows {
            let e = self.best_ok.entry(k).or_default();
            *e = (*e).max(v);
        }
    }
    fn finish(self, out: &mut CaseOut) {
        out.findings.extend(self.findings);
        out.crash_points += self.crash_points;
        out.arrays += self.arrays;
        out.values += self.values;
        out.inconclusive.extend(self.inconclusive);
        out.log.extend(self.log);
    }
}

fn steps_for(case: &Case, streams: &[Vec<Rec>]) -> Vec<Step> {
    let lag = case.lag as usize;
    let rounds = streams.iter().enumerate().map(|(c, s)| s.len() + c * lag).max().unwrap_or(0);
    let mut steps = vec![];
    for t in 0..rounds {
        for (c, s) in streams.iter().enumerate() {
            if t >= c * lag && t - c * lag < s.len() {
                steps.push(Step::Rec(c));
            }
        }
        if (t + 1) as u64 % case.stride.max(1) == 0 || t + 1 == rounds {
            steps.push(Step::Flush);
        }
    }
    steps
}

/// Replay through the storage traits with a crash point after every flush.
fn run_writer<C: StorageConfig, S: Settings, M: Math>(cfg: C, store: &ZStore, case: &Case, settings: &S, math: &M, schema: &FullSchema, streams: &[Vec<Rec>], out: &mut CaseOut) {
    let steps = steps_for(case, streams);
    let mut tr = Tracker::new(schema, case);
    let d = drive(cfg, settings, math, streams, &steps, |h| {
        let Hook::Flushed { step, recorded, failed } = h else { return };
        if failed.iter().any(|f| *f) {
            return;
        }
        let recs = streams.iter().zip(recorded).map(|(s, n)| &s[..*n]).collect();
        tr.crash_point(store, recs, false, &format!("crash point after step {step}"));
    });
    for (phase, msg, c, i) in &d.errors {
        tr.findings.push(Finding { sig: classify(phase, msg), detail: format!("{phase} failed for chain {c} at record {i}: {msg}") });
    }
    if d.finalized.is_some() && !d.failed.iter().any(|f| *f) {
        let recs = streams.iter().zip(&d.recorded).map(|(s, n)| &s[..*n]).collect();
        tr.crash_point(store, recs, true, "after finalize");
    }
    tr.finish(out);
}

/// Through the parallel sampler: pause, wait until the chains are quiescent, `Sampler::flush`,
/// snapshot, compare with the prefix of the deterministic reference run, resume.
fn run_sampler<C, S>(cfg: C, store: &ZStore, case: &Case, settings: S, schema: &FullSchema, streams: &[Vec<Rec>], out: &mut CaseOut)
where
    C: StorageConfig,
    S: Settings,
{
    let mut tr = Tracker::new(schema, case);
    let model = MultiModel { target: case.spec.target(), variant: case.spec.variant, delay_us: 150 };
    let res = guard(|| -> Result<(), String> {
        let mut sampler = Sampler::new(model, settings, cfg, case.spec.n_chains.clamp(1, 3), None).map_err(|e| format!("{e:#}"))?;
        let finished = |s: &mut Sampler<_>| -> Result<Vec<usize>, String> { Ok(s.progress().map_err(|e| format!("{e:#}"))?.iter().map(|p| p.finished_draws).collect()) };
        for round in 0..4u64 {
            std::thread::sleep(Duration::from_millis(15 + 20 * round));
            sampler.pause().map_err(|e| format!("pause: {e:#}"))?;
            // quiescence: the draw counters stop moving (wall clock only decides conclusiveness)
            let mut stable = None;
            let mut last = finished(&mut sampler)?;
            for _ in 0..40 {
                std::thread::sleep(Duration::from_millis(10));
                let now = finished(&mut sampler)?;
                if now == last {
                    stable = Some(now);
                    break;
                }
                last = now;
            }
            let Some(before) = stable else {
                tr.inconclusive.push("chains did not become quiescent after pause".into());
                sampler.resume().map_err(|e| format!("resume: {e:#}"))?;
                continue;
            };
            if let Err(e) = sampler.flush() {
                tr.findings.push(Finding { sig: classify("sampler_flush", &format!("{e:#}")), detail: format!("Sampler::flush failed: {e:#}") });
            }
            let after = finished(&mut sampler)?;
            if after != before {
                tr.inconclusive.push("a chain advanced during the flush of a paused sampler".into());
            } else if before.iter().zip(streams).any(|(n, s)| *n > s.len()) {
                tr.inconclusive.push("sampler recorded more draws than the reference run".into());
            } else {
                let recs = streams.iter().zip(&before).map(|(s, n)| &s[..*n]).collect();
                tr.crash_point(store, recs, false, &format!("Sampler::flush while paused (round {round})"));
            }
            sampler.resume().map_err(|e| format!("resume: {e:#}"))?;
        }
        for _ in 0..120 {
            match sampler.wait_timeout(Duration::from_secs(1)) {
                SamplerWaitResult::Trace(_) => {
                    let recs = streams.iter().map(|s| &s[..]).collect();
                    tr.crash_point(store, recs, true, "after the sampler finished");
                    return Ok(());
                }
                SamplerWaitResult::Timeout(s) => sampler = s,
                SamplerWaitResult::Err(e, _) => return Err(format!("sampler failed: {e:#}")),
            }
        }
        let _ = sampler.abort();
        Err("timeout".into())
    });
    match res {
        Ok(Ok(())) => {}
        Ok(Err(e)) if e == "timeout" => tr.inconclusive.push("sampler timed out".into()),
        Ok(Err(e)) => tr.findings.push(Finding { sig: classify("sampler", &e), detail: e }),
        Err(p) => tr.findings.push(Finding { sig: classify("sampler", &p), detail: format!("sampler panicked: {p}") }),
    }
    tr.finish(out);
}

struct CaseFn<'a> {
    case: &'a Case,
    out: &'a mut CaseOut,
}

impl SettingsFn for CaseFn<'_> {
    type Out = ();
    fn call<S: Settings>(self, settings: S) {
        let (case, out) = (self.case, self.out);
        let math = multi_math(&case.spec.target(), case.spec.variant);
        let sampler_case = case.kind == "sampler";
        let streams = if sampler_case {
            reference_run(settings, MultiModel { target: case.spec.target(), variant: case.spec.variant, delay_us: 0 }, case.spec.n_chains)
        } else {
            gen_streams(&case.spec)
        };
        let streams = match streams {
            Ok(s) => s,
            Err(e) => {
                out.inconclusive.push(format!("stream generation failed: {}", e.split(':').next().unwrap_or("")));
                return;
            }
        };
        let schema = match FullSchema::of(&settings, &math) {
            Ok(s) => s,
            Err(e) => {
                out.inconclusive.push(format!("schema: {e}"));
                return;
            }
        };
        if streams.iter().flatten().any(|r| !schema.matches(r)) {
            out.inconclusive.push("recorded names differ from the declared schema".into());
            return;
        }
        let writer = Writer::from_tag(&case.writer);
        let store = match ZStore::new(case.fs, writer) {
            Ok(s) => s,
            Err(e) => {
                out.inconclusive.push(format!("store: {e}"));
                return;
            }
        };
        macro_rules! go {
            ($cfg:expr) => {{
                let mut cfg = $cfg.with_chunk_size(case.chunk);
                if case.group {
                    cfg = cfg.with_group_path("/grp");
                }
                if sampler_case {
                    run_sampler(cfg, &store, case, settings, &schema, &streams, out);
                } else {
                    run_writer(cfg, &store, case, &settings, &math, &schema, &streams, out);
                }
            }};
        }
        if writer == Writer::Sync {
            go!(store.sync_config())
        } else {
            go!(store.async_config())
        }
        out.streams = streams;
    }
}

fn run_case(report: &mut Report, case: &Case, verbose: bool) {
    report.eval();
    let mut out = CaseOut::default();
    if let Err(e) = dispatch(case.spec.preset(), &case.spec.settings_json(), CaseFn { case, out: &mut out }) {
        out.inconclusive.push(e);
    }
    let streams = &out.streams;
    let n_div = streams.iter().flatten().filter(|r| r.diverging).count() as u64;
    let n_upd = streams.iter().flatten().filter(|r| r.stats.iter().any(|(n, v)| n == "transformation_update_id" && v.is_some())).count() as u64;
    let mut h = Fnv::new();
    h.str(&case.kind).str(&case.writer).u64(case.fs as u64).u64(case.chunk).u64(case.spec.num_tune).u64(case.spec.num_draws).u64(case.spec.n_chains as u64);
    h.u64(case.stride).u64(case.lag).str(&case.spec.preset).u64(case.spec.variant as u64).u64(n_div.min(2)).u64(n_upd.min(2));
    h.u64((case.spec.n_records < case.spec.num_tune + case.spec.num_draws) as u64);
    if out.crash_points > 0 {
        report.nontrivial(h.finish());
    }
    report.count("crash_points", out.crash_points);
    if case.kind == "sampler" {
        report.count("crash_points_through_sampler_flush", out.crash_points);
    }
    report.count("arrays_read_back", out.arrays);
    report.count("values_compared", out.values);
    report.count("records_in_streams", streams.iter().map(|s| s.len() as u64).sum());
    report.count("divergence_events_in_streams", n_div);
    report.count("transformation_update_events_in_streams", n_upd);
    for r in &out.inconclusive {
        report.inconclusive(r);
        if verbose {
            eprintln!("inconclusive: {r}");
        }
    }
    let writer = Writer::from_tag(&case.writer);
    let store = if case.fs { "fs" } else { "mem" };
    let mut seen: HashMap<String, u64> = HashMap::new();
    for f in &out.findings {
        let sig = format!("C15:{}:{store}:{}", writer.name(), f.sig);
        let n = seen.entry(sig.clone()).or_default();
        *n += 1;
        if verbose && *n <= 5 {
            eprintln!("{sig}: {}", f.detail);
        }
        if *n == 1 {
            report.violation(sig, format!("[{} case, writer {}] {}", case.kind, case.writer, f.detail), serde_json::to_value(case).unwrap());
        }
    }
    if report.samples.len() < 2 && out.crash_points > 3 {
        report.sample(json!({"case": serde_json::to_value(case).unwrap(), "crash_points": out.crash_points, "arrays_read_back": out.arrays,
            "values_compared": out.values, "divergences": n_div, "transformation_updates": n_upd, "findings": seen.keys().collect::<Vec<_>>()}));
    }
    if verbose {
        for l in &out.log {
            eprintln!("{l}");
        }
        eprintln!("case done: {} crash points, {} arrays read back, {} values compared, {n_div} divergences, {n_upd} updates", out.crash_points, out.arrays, out.values);
    }
}

fn gen_cases(report: &Report, seed: u64) -> Vec<Case> {
    let rng = HRng::new(seed ^ 0xC15);
    let reps = report.size(2, 100);
    let mut cases = vec![];
    let mut id = 0u64;
    for writer in ["sync", "async_adapter", "async_object_store"] {
        for fs in [false, true] {
            // chunk classes: fixed sizes and sizes relative to the number of draws n
            for chunk_class in ["1", "2", "3", "5", "7", "n-1", "n", "n+1", "100"] {
                for rep in 0..reps {
                    id += 1;
                    let mut r = rng.fork(id);
                    let preset = ALL_PRESETS[(id as usize + rep as usize) % 6];
                    // draw counts around multiples of the chunk size, including the warmup -> sampling switch
                    let base: u64 = chunk_class.parse().unwrap_or(0);
                    let around = |r: &mut HRng, c: u64| -> u64 {
                        if c == 0 || c > 20 {
                            *r.choose(&[0u64, 1, 2, 5, 9])
                        } else {
                            *r.choose(&[0, c.saturating_sub(1), c, c + 1, 2 * c, 2 * c + 1, 1])
                        }
                    };
                    let cap = if fs { 8 } else { 15 };
                    let num_tune = around(&mut r, base).min(cap);
                    let num_draws = around(&mut r, base).min(cap).max(if num_tune == 0 { 1 } else { 0 });
                    let n = if r.bool(0.5) && num_tune > 0 { num_tune } else { num_tune + num_draws };
                    let chunk = match chunk_class {
                        "n-1" => n.max(2) - 1,
                        "n" => n.max(1),
                        "n+1" => n + 1,
                        _ => base,
                    };
                    let total = num_tune + num_draws;
                    let target = *r.choose(&["funnel", "funnel", "scaled"]);
                    cases.push(Case {
                        kind: "replay".into(),
                        spec: StreamSpec {
                            preset: preset.name().into(),
                            target: target.into(),
                            dim: if target == "funnel" { 3 } else { 2 },
                            num_tune,
                            num_draws,
                            n_chains: 1 + r.below(3) as usize,
                            n_records: if r.bool(0.2) && total > 1 { 1 + r.below(total - 1) } else { total },
                            seed: r.next_u64() >> 12,
                            variant: *r.choose(&[0u8, 1, 1]),
                            store_divergences: r.bool(0.5),
                            store_extra: r.bool(0.3),
                            special: r.bool(0.3),
                        },
                        writer: writer.into(),
                        fs,
                        chunk,
                        stride: *r.choose(&[1u64, 1, 1, 2, 3]),
                        lag: *r.choose(&[0u64, 0, 2]),
                        group: false,
                    });
                }
            }
        }
    }
    // through Sampler::pause / flush / resume
    let sreps = report.size(1, 20);
    for (wi, writer) in ["sync", "async_adapter", "async_object_store"].iter().enumerate() {
        for fs in [false, true] {
            for rep in 0..sreps {
                let mut r = rng.fork(0x5A0000 + (wi as u64) * 100 + fs as u64 * 10 + rep);
                let preset = ALL_PRESETS[(wi * 2 + fs as usize + rep as usize) % 6];
                let (num_tune, num_draws) = *r.choose(&[(60u64, 60u64), (40, 100), (100, 30)]);
                cases.push(Case {
                    kind: "sampler".into(),
                    spec: StreamSpec {
                        preset: preset.name().into(),
                        target: "funnel".into(),
                        dim: 3,
                        num_tune,
                        num_draws,
                        n_chains: 1 + r.below(3) as usize,
                        n_records: num_tune + num_draws,
                        seed: r.next_u64() >> 12,
                        variant: *r.choose(&[0u8, 1]),
                        store_divergences: r.bool(0.5),
                        store_extra: false,
                        special: false,
                    },
                    writer: writer.to_string(),
                    fs,
                    chunk: *r.choose(&[1u64, 3, 7, 16, 100]),
                    stride: 1,
                    lag: 0,
                    group: false,
                });
            }
        }
    }
    cases
}

pub fn run(args: &Args, report: &mut Report) {
    report.rule = "replay cases = {sync writer, async writer over the sync-to-async adapter, async writer over object_store} x {memory, filesystem store} x chunk size in \
        {1,2,3,5,7,n-1,n,n+1,100} x random (preset, num_tune / num_draws around multiples of the chunk size incl. 0, 1-3 chains possibly lagging, flush stride 1-3, \
        aborted runs, multi-type expanded vector, special values); every flush is a crash point: snapshot of the store, fresh zarrs reader, every array of every chain compared \
        with the recorded prefix, regions intact at an earlier crash point re-checked, plus one check after finalize; sampler cases = the same writers / stores driven by the \
        parallel Sampler, paused and flushed through Sampler::flush four times and compared with the prefix of the deterministic reference run; distinct = (kind, writer, store, \
        chunk, num_tune, num_draws, chains, stride, lag, preset, variant, saw divergence, saw transformation update, aborted)"
        .into();
    report.assumptions = vec![
        "the value stream is what Storable::get_all returned from real chains (harness chain wrapper) or what the recording backend received from the Sampler".into(),
        "reader: zarrs 0.23 Array::open + retrieve_array_subset on a copy of the store taken right after flush() returned".into(),
        "replay cases call flush() of every chain from the recording thread, as Sampler::flush does under the trace mutex".into(),
        "sampler cases: the prefix length is the finished_draws counter of a paused sampler, read before and after Sampler::flush (unequal => inconclusive)".into(),
    ];
    crate::sched::install();
    if let Some(r) = &args.replay {
        match serde_json::from_value::<Case>(r.clone()) {
            Ok(case) => run_case(report, &case, true),
            Err(e) => eprintln!("cannot parse replay case: {e}"),
        }
        return;
    }
    let cases = gen_cases(report, args.seed);
    let (samp, replay): (Vec<Case>, Vec<Case>) = cases.into_iter().partition(|c| c.kind == "sampler");
    crate::report::par_run(report, replay.len() as u64, |i, rep| run_case(rep, &replay[i as usize], false));
    // the sampler cases depend on pausing running chains: run them with little CPU contention
    for ch in samp.chunks(4) {
        crate::report::par_run(report, ch.len() as u64, |i, rep| run_case(rep, &ch[i as usize], false));
    }
}
