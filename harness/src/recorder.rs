//! Recording storage backend: implements the (hook re-exported) storage traits and keeps every
//! recorded draw with a tick of the global logical clock. It is the oracle's copy of "what the
//! chains recorded" and can inject storage failures.

use std::collections::BTreeMap;
use std::sync::{Arc, Mutex};

use nuts_rs::verif::{ChainStorage, StorageConfig, TraceStorage};
use nuts_rs::{ItemType, Math, Progress, Settings, Value};

use crate::util::Fnv;

#[derive(Clone, Debug)]
pub struct Record {
    pub clock: u64,
    pub chain: u64,
    /// position of this record within its chain (0-based)
    pub seq: u64,
    pub stats: Vec<(String, Option<Value>)>,
    pub draws: Vec<(String, Option<Value>)>,
    pub draw: u64,
    pub progress_chain: u64,
    pub diverging: bool,
    pub tuning: bool,
    pub step_size: f64,
    pub num_steps: u64,
}

impl Record {
    /// Bitwise hash of everything recorded for this draw.
    pub fn hash(&self) -> u64 {
        let mut h = Fnv::new();
        h.u64(self.draw).u64(self.progress_chain).u64(self.diverging as u64).u64(self.tuning as u64);
        h.f64(self.step_size).u64(self.num_steps);
        for (n, v) in self.stats.iter().chain(self.draws.iter()) {
            h.str(n);
            hash_value(&mut h, v.as_ref());
        }
        h.finish()
    }
    pub fn stat(&self, name: &str) -> Option<&Value> {
        self.stats.iter().find(|(n, _)| n == name).and_then(|(_, v)| v.as_ref())
    }
}

pub fn hash_value(h: &mut Fnv, v: Option<&Value>) {
    match v {
        None => {
            h.u64(0xA0);
        }
        Some(Value::U64(x)) => {
            h.u64(1).u64(x.len() as u64);
            x.iter().for_each(|v| {
                h.u64(*v);
            })
        }
        Some(Value::I64(x)) => {
            h.u64(2).u64(x.len() as u64);
            x.iter().for_each(|v| {
                h.u64(*v as u64);
            })
        }
        Some(Value::F64(x)) => {
            h.u64(3).f64s(x);
        }
        Some(Value::F32(x)) => {
            h.u64(4).u64(x.len() as u64);
            x.iter().for_each(|v| {
                h.u64(v.to_bits() as u64);
            })
        }
        Some(Value::Bool(x)) => {
            h.u64(5).u64(x.len() as u64);
            x.iter().for_each(|v| {
                h.u64(*v as u64);
            })
        }
        Some(Value::ScalarString(s)) => {
            h.u64(6).str(s);
        }
        Some(Value::DateTime64(_, x)) | Some(Value::TimeDelta64(_, x)) => {
            h.u64(7).u64(x.len() as u64);
            x.iter().for_each(|v| {
                h.u64(*v as u64);
            })
        }
        Some(Value::ScalarU64(x)) => {
            h.u64(8).u64(*x);
        }
        Some(Value::ScalarI64(x)) => {
            h.u64(9).u64(*x as u64);
        }
        Some(Value::ScalarF64(x)) => {
            h.u64(10).f64(*x);
        }
        Some(Value::ScalarF32(x)) => {
            h.u64(11).u64(x.to_bits() as u64);
        }
        Some(Value::ScalarBool(x)) => {
            h.u64(12).u64(*x as u64);
        }
        Some(Value::Strings(x)) => {
            h.u64(13).u64(x.len() as u64);
            x.iter().for_each(|v| {
                h.str(v);
            })
        }
    }
}

#[derive(Clone, Debug, Default)]
pub struct StorageFaults {
    /// record_sample fails for (chain, seq)
    pub record_fail: Vec<(u64, u64)>,
    /// ChainStorage::finalize fails for these chains
    pub finalize_fail: Vec<u64>,
    /// initialize_trace_for_chain fails for these chains
    pub init_fail: Vec<u64>,
    /// artificial delay inside record_sample (microseconds)
    pub record_delay_us: u64,
}

#[derive(Default)]
pub struct RecShared {
    pub records: Mutex<BTreeMap<u64, Vec<Record>>>,
    pub flushes: Mutex<Vec<(u64, u64)>>,
    pub inspects: Mutex<u64>,
    pub finalized_chains: Mutex<Vec<u64>>,
    pub schema: Mutex<Option<RecSchema>>,
}

#[derive(Clone, Debug)]
pub struct RecSchema {
    pub stat_types: Vec<(String, ItemType)>,
    pub data_types: Vec<(String, ItemType)>,
    pub num_chains: usize,
    pub num_tune: usize,
    pub num_draws: usize,
}

impl RecShared {
    pub fn chain_len(&self, chain: u64) -> usize {
        self.records.lock().unwrap().get(&chain).map(|v| v.len()).unwrap_or(0)
    }
    pub fn snapshot(&self) -> BTreeMap<u64, Vec<Record>> {
        self.records.lock().unwrap().clone()
    }
    /// per chain: hash of every record, in order
    pub fn hashes(&self) -> BTreeMap<u64, Vec<u64>> {
        self.records.lock().unwrap().iter().map(|(c, v)| (*c, v.iter().map(|r| r.hash()).collect())).collect()
    }
}

pub struct RecConfig {
    pub shared: Arc<RecShared>,
    pub faults: StorageFaults,
}

impl RecConfig {
    pub fn new() -> (RecConfig, Arc<RecShared>) {
        let shared = Arc::new(RecShared::default());
        (RecConfig { shared: shared.clone(), faults: StorageFaults::default() }, shared)
    }
    pub fn with_faults(faults: StorageFaults) -> (RecConfig, Arc<RecShared>) {
        let shared = Arc::new(RecShared::default());
        (RecConfig { shared: shared.clone(), faults }, shared)
    }
}

pub struct RecTrace {
    shared: Arc<RecShared>,
    faults: StorageFaults,
}

pub struct RecChain {
    shared: Arc<RecShared>,
    faults: StorageFaults,
    chain: u64,
    seq: u64,
}

/// What finalize / inspect return per chain: the records of that chain.
pub type ChainFinal = (u64, Vec<Record>);

#[derive(Debug, Default)]
pub struct RecFinal {
    pub chains: Vec<ChainFinal>,
}

impl StorageConfig for RecConfig {
    type Storage = RecTrace;

    fn new_trace<M: Math>(self, settings: &impl Settings, math: &M) -> anyhow::Result<RecTrace> {
        *self.shared.schema.lock().unwrap() = Some(RecSchema {
            stat_types: settings.stat_types(math),
            data_types: settings.data_types(math),
            num_chains: settings.num_chains(),
            num_tune: settings.hint_num_tune(),
            num_draws: settings.hint_num_draws(),
        });
        Ok(RecTrace { shared: self.shared, faults: self.faults })
    }
}

impl TraceStorage for RecTrace {
    type ChainStorage = RecChain;
    type Finalized = RecFinal;

    fn initialize_trace_for_chain(&self, chain_id: u64) -> anyhow::Result<RecChain> {
        if self.faults.init_fail.contains(&chain_id) {
            anyhow::bail!("injected storage failure: initialize_trace_for_chain({chain_id})");
        }
        self.shared.records.lock().unwrap().entry(chain_id).or_default();
        Ok(RecChain { shared: self.shared.clone(), faults: self.faults.clone(), chain: chain_id, seq: 0 })
    }

    fn finalize(self, traces: Vec<anyhow::Result<ChainFinal>>) -> anyhow::Result<(Option<anyhow::Error>, RecFinal)> {
        let mut first_error = None;
        let mut chains = vec![];
        for t in traces {
            match t {
                Ok(c) => chains.push(c),
                Err(e) => {
                    if first_error.is_none() {
                        first_error = Some(e)
                    }
                }
            }
        }
        Ok((first_error, RecFinal { chains }))
    }

    fn inspect(&self, traces: Vec<anyhow::Result<Option<ChainFinal>>>) -> anyhow::Result<(Option<anyhow::Error>, RecFinal)> {
        *self.shared.inspects.lock().unwrap() += 1;
        let mut first_error = None;
        let mut chains = vec![];
        for t in traces {
            match t {
                Ok(Some(c)) => chains.push(c),
                Ok(None) => {}
                Err(e) => {
                    if first_error.is_none() {
                        first_error = Some(e)
                    }
                }
            }
        }
        Ok((first_error, RecFinal { chains }))
    }
}

fn own(v: Vec<(&str, Option<Value>)>) -> Vec<(String, Option<Value>)> {
    v.into_iter().map(|(n, v)| (n.to_string(), v)).collect()
}

impl ChainStorage for RecChain {
    type Finalized = ChainFinal;

    fn record_sample(
        &mut self,
        _settings: &impl Settings,
        stats: Vec<(&str, Option<Value>)>,
        draws: Vec<(&str, Option<Value>)>,
        info: &Progress,
    ) -> anyhow::Result<()> {
        if self.faults.record_delay_us > 0 {
            std::thread::sleep(std::time::Duration::from_micros(self.faults.record_delay_us));
        }
        if self.faults.record_fail.contains(&(self.chain, self.seq)) {
            anyhow::bail!("injected storage failure: record_sample(chain {}, seq {})", self.chain, self.seq);
        }
        let rec = Record {
            clock: crate::sched::tick(),
            chain: self.chain,
            seq: self.seq,
            stats: own(stats),
            draws: own(draws),
            draw: info.draw,
            progress_chain: info.chain,
            diverging: info.diverging,
            tuning: info.tuning,
            step_size: info.step_size,
            num_steps: info.num_steps,
        };
        self.seq += 1;
        self.shared.records.lock().unwrap().entry(self.chain).or_default().push(rec);
        Ok(())
    }

    fn finalize(self) -> anyhow::Result<ChainFinal> {
        if self.faults.finalize_fail.contains(&self.chain) {
            anyhow::bail!("injected storage failure: finalize(chain {})", self.chain);
        }
        self.shared.finalized_chains.lock().unwrap().push(self.chain);
        let recs = self.shared.records.lock().unwrap().get(&self.chain).cloned().unwrap_or_default();
        Ok((self.chain, recs))
    }

    fn inspect(&self) -> anyhow::Result<Option<ChainFinal>> {
        let recs = self.shared.records.lock().unwrap().get(&self.chain).cloned().unwrap_or_default();
        Ok(Some((self.chain, recs)))
    }

    fn flush(&self) -> anyhow::Result<()> {
        self.shared.flushes.lock().unwrap().push((self.chain, self.seq));
        Ok(())
    }
}
