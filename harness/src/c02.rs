//! C02 — integrator is the textbook leapfrog for the implied mass matrix.

use nuts_rs::KineticEnergyKind;
use nuts_rs::verif::PointParts;
use serde_json::{Value as J, json};

use crate::Args;
use crate::dens::Target;
use crate::report::Report;
use crate::tree::{HamDyn, Setup, Transform, with_hamiltonian};
use crate::util::{Fnv, HRng, Mat, det, dot, lu_inverse, mat_mul, mat_t, mat_t_vec, mat_vec, norm};

fn make_target(rng: &mut HRng, d: usize, which: u64) -> Target {
    match which % 6 {
        0 => Target::iso(d, 0.3),
        1 => Target::scaled(rng, d, 50.0),
        2 => Target::correlated(rng, d, 30.0),
        3 => Target::Logistic { dim: d },
        4 => Target::StudentT { nu: 5.0, mu: (0..d).map(|_| rng.range(-1.0, 1.0)).collect(), sigma: (0..d).map(|_| rng.log_range(0.3, 3.0)).collect() },
        _ => {
            if d >= 2 { Target::Banana { b: 0.3, dim: d } } else { Target::Logistic { dim: d } }
        }
    }
}

fn logp_grad(t: &Target, x: &[f64]) -> (f64, Vec<f64>) {
    let mut g = vec![0.0; x.len()];
    let lp = t.eval(x, &mut g);
    (lp, g)
}

fn rel_err(a: &[f64], b: &[f64]) -> f64 {
    let scale = norm(a).max(norm(b)).max(1.0);
    a.iter().zip(b).map(|(x, y)| (x - y).abs()).fold(0.0, f64::max) / scale
}

/// Reference step in the original space (Euclidean) or whitened space (ExactNormal / ESH).
thread_local! {
    /// largest cancellation factor met by the closed-form ESH updates of the reference since it was last reset
    static ESH_AMPLIFICATION: std::cell::Cell<f64> = const { std::cell::Cell::new(0.0) };
}

fn reference_step(
    setup: &Setup,
    f: &Mat,
    c: &[f64],
    finv: &Mat,
    x: &[f64],
    v: &[f64],
    eps: f64,
) -> (Vec<f64>, Vec<f64>) {
    let d = x.len();
    match setup.kind {
        KineticEnergyKind::Euclidean => {
            // p = F^-T v ; M^-1 = F F^T
            let finv_t = mat_t(finv);
            let p = mat_vec(&finv_t, v);
            let (_, g) = logp_grad(&setup.target, x);
            let ph: Vec<f64> = (0..d).map(|i| p[i] + 0.5 * eps * g[i]).collect();
            let ftp = mat_t_vec(f, &ph);
            let minv_p = mat_vec(f, &ftp);
            let xn: Vec<f64> = (0..d).map(|i| x[i] + eps * minv_p[i]).collect();
            let (_, gn) = logp_grad(&setup.target, &xn);
            let pn: Vec<f64> = (0..d).map(|i| ph[i] + 0.5 * eps * gn[i]).collect();
            let vn = mat_t_vec(f, &pn);
            (xn, vn)
        }
        KineticEnergyKind::ExactNormal => {
            let xc: Vec<f64> = (0..d).map(|i| x[i] - c[i]).collect();
            let y = mat_vec(finv, &xc);
            let (_, g) = logp_grad(&setup.target, x);
            let gy = mat_t_vec(f, &g);
            let vh: Vec<f64> = (0..d).map(|i| v[i] + 0.5 * eps * (y[i] + gy[i])).collect();
            let (s, co) = (eps.sin(), eps.cos());
            let yn: Vec<f64> = (0..d).map(|i| y[i] * co + vh[i] * s).collect();
            let vr: Vec<f64> = (0..d).map(|i| -y[i] * s + vh[i] * co).collect();
            let fy = mat_vec(f, &yn);
            let xn: Vec<f64> = (0..d).map(|i| fy[i] + c[i]).collect();
            let (_, gn) = logp_grad(&setup.target, &xn);
            let gyn = mat_t_vec(f, &gn);
            let vn: Vec<f64> = (0..d).map(|i| vr[i] + 0.5 * eps * (yn[i] + gyn[i])).collect();
            (xn, vn)
        }
        KineticEnergyKind::Microcanonical => {
            let esh = |g: &[f64], u: &[f64], step: f64| -> Vec<f64> {
                let n = g.len() as f64;
                let gn = norm(g);
                let ghat: Vec<f64> = g.iter().map(|x| x / gn).collect();
                let alpha = dot(u, &ghat);
                let delta = step * gn / (n - 1.0);
                let zeta = (-delta).exp();
                let raw: Vec<f64> = (0..g.len())
                    .map(|i| ghat[i] * (1.0 - zeta) * (1.0 + zeta + alpha * (1.0 - zeta)) + 2.0 * zeta * u[i])
                    .collect();
                let rn = norm(&raw);
                // both terms of the raw update cancel when the momentum is almost opposite to the gradient: rounding
                // errors of either term are amplified by (size of the terms) / |raw| before the renormalisation
                // (the rounding error of alpha = p . g/|g| enters with the factor (1 - zeta)^2, which is large for
                // backward steps)
                let amp = (1.0 + ((1.0 - zeta) * (1.0 + zeta + alpha * (1.0 - zeta))).abs() + 2.0 * zeta + (1.0 - zeta) * (1.0 - zeta)) / rn.max(1e-300);
                ESH_AMPLIFICATION.with(|a| a.set(a.get().max(amp)));
                raw.iter().map(|x| x / rn).collect()
            };
            let sq = (d as f64).sqrt();
            let xc: Vec<f64> = (0..d).map(|i| x[i] - c[i]).collect();
            let y = mat_vec(finv, &xc);
            let (_, g) = logp_grad(&setup.target, x);
            let gy = mat_t_vec(f, &g);
            let uh = esh(&gy, v, sq * eps / 2.0);
            let yn: Vec<f64> = (0..d).map(|i| y[i] + eps * sq * uh[i]).collect();
            let fy = mat_vec(f, &yn);
            let xn: Vec<f64> = (0..d).map(|i| fy[i] + c[i]).collect();
            let (_, gn) = logp_grad(&setup.target, &xn);
            let gyn = mat_t_vec(f, &gn);
            let un = esh(&gyn, &uh, sq * eps / 2.0);
            (xn, un)
        }
    }
}

struct Case {
    setup: Setup,
    momentum: Vec<f64>,
    seed: u64,
    idx: u64,
}

fn gen_case(seed: u64, idx: u64) -> Case {
    let mut rng = HRng::new(seed).fork(idx);
    let dims = [1usize, 2, 3, 5, 8, 16, 33, 64];
    let mut d = dims[(idx % 8) as usize];
    let kind = match (idx / 8) % 3 {
        0 => KineticEnergyKind::Euclidean,
        1 => KineticEnergyKind::ExactNormal,
        _ => KineticEnergyKind::Microcanonical,
    };
    if kind == KineticEnergyKind::Microcanonical && d < 2 {
        d = 2;
    }
    let target = make_target(&mut rng, d, idx / 24);
    let lowrank = rng.bool(0.6);
    let transform = Transform::random(&mut rng, d, lowrank);
    let (f, c) = transform.dense();
    // start near the image of a standard normal point in y space, scaled to the target when known
    let y0: Vec<f64> = rng.normal_vec(d);
    let fy = mat_vec(&f, &y0);
    let start: Vec<f64> = match target.moments() {
        Some((m, v)) => (0..d).map(|i| m[i] + v[i].sqrt() * 0.7 * y0[i]).collect(),
        None => (0..d).map(|i| 0.2 * fy[i] / norm(&fy).max(1e-9) + c[i] * 0.0).collect(),
    };
    let mut momentum = rng.normal_vec(d);
    if kind == KineticEnergyKind::Microcanonical {
        let n = norm(&momentum);
        momentum.iter_mut().for_each(|x| *x /= n);
    }
    let step_size = rng.log_range(0.005, 0.5) * if kind == KineticEnergyKind::Microcanonical { 1.0 / (d as f64).sqrt() } else { 1.0 };
    Case { setup: Setup { target, transform, kind, step_size, start }, momentum, seed, idx }
}

fn check_case(report: &mut Report, case: &Case, verbose: bool) {
    report.eval();
    let setup = &case.setup;
    let d = setup.start.len();
    let kname = setup.kind_name();
    let tname = setup.transform.name();
    let replay = json!({"seed": case.seed, "idx": case.idx});
    let (f, c) = setup.transform.dense();
    let Some((logabsdet, _, finv)) = lu_inverse(&f) else {
        report.inconclusive("singular dense F");
        return;
    };
    let sig = |what: &str| format!("C02:{kname}:{tname}:{what}");
    let res: Result<(), String> = with_hamiltonian(setup, &mut |math, h| {
        // (5) transformation consistency at the start point
        let p0 = h.init_parts(math, &setup.start)?;
        let xc: Vec<f64> = (0..d).map(|i| setup.start[i] - c[i]).collect();
        let y_ref = mat_vec(&finv, &xc);
        let (lp_ref, g_ref) = logp_grad(&setup.target, &setup.start);
        let gy_ref = mat_t_vec(&f, &g_ref);
        let e = rel_err(&p0.transformed_position, &y_ref);
        if !(e <= 1e-9) {
            report.violation(sig("whitened_position"), format!("F^-1(x-c) mismatch rel {e:e}"), replay.clone());
        }
        let e = rel_err(&p0.transformed_gradient, &gy_ref);
        if !(e <= 1e-9) {
            report.violation(sig("pulled_back_gradient"), format!("F^T grad mismatch rel {e:e}"), replay.clone());
        }
        if !((p0.logdet + logabsdet).abs() <= 1e-9 * (1.0 + logabsdet.abs())) {
            report.violation(sig("logdet"), format!("logdet {} vs -log|det F| {}", p0.logdet, -logabsdet), replay.clone());
        }
        if !((p0.logp - lp_ref).abs() <= 1e-12 * (1.0 + lp_ref.abs())) {
            report.violation(sig("logp"), format!("logp {} vs {}", p0.logp, lp_ref), replay.clone());
        }
        // F(F^-1(x)) = x through the real code: a leapfrog with zero step size maps y back to x
        h.set_step_size(0.0);
        if let (_, Some(back)) = h.leapfrog(math, &setup.start, &case.momentum, true, 1e300)? {
            let e = rel_err(&back.position, &setup.start);
            if !(e <= 1e-9) {
                report.violation(sig("inverse_round_trip"), format!("F(F^-1 x) != x, rel {e:e}"), replay.clone());
            }
        }
        // finite-difference gradient of logp∘F vs the pulled-back gradient (few coordinates)
        {
            let y = &p0.transformed_position;
            let hh = 1e-6 * (1.0 + norm(y));
            for k in 0..d.min(3) {
                let central = |step: f64| -> (f64, f64) {
                    let mut yp = y.clone();
                    yp[k] += step;
                    let mut ym = y.clone();
                    ym[k] -= step;
                    let xp: Vec<f64> = mat_vec(&f, &yp).iter().zip(&c).map(|(a, b)| a + b).collect();
                    let xm: Vec<f64> = mat_vec(&f, &ym).iter().zip(&c).map(|(a, b)| a + b).collect();
                    let (lp, lm) = (logp_grad(&setup.target, &xp).0, logp_grad(&setup.target, &xm).0);
                    ((lp - lm) / (2.0 * step), 16.0 * f64::EPSILON * (lp.abs() + lm.abs()) / (2.0 * step))
                };
                // Richardson extrapolation of two central differences; the difference between the two is the measured
                // truncation error, the rounding error of the log densities is added
                let ((f1, r1), (f2, r2)) = (central(hh), central(hh / 2.0));
                let fd = (4.0 * f2 - f1) / 3.0;
                let scale = norm(&p0.transformed_gradient).max(1.0);
                let tol = 1e-4 * scale + 2.0 * (f2 - f1).abs() + 2.0 * (r1 + r2);
                if !((fd - p0.transformed_gradient[k]).abs() <= tol) {
                    report.violation(sig("gradient_vs_finite_difference"), format!("coord {k}: fd {fd} vs {}", p0.transformed_gradient[k]), replay.clone());
                }
            }
        }
        h.set_step_size(setup.step_size);
        // (1) single step vs reference, both directions
        for forward in [true, false] {
            let eps = if forward { setup.step_size } else { -setup.step_size };
            let (init, end) = h.leapfrog(math, &setup.start, &case.momentum, forward, 1e300)?;
            let Some(end) = end else {
                report.inconclusive("divergence in single step");
                continue;
            };
            let same = if setup.kind == KineticEnergyKind::Microcanonical {
                rel_err(&init.velocity, &case.momentum) <= 1e-14
            } else {
                init.velocity.iter().zip(&case.momentum).all(|(a, b)| a.to_bits() == b.to_bits())
            };
            if !same {
                report.violation(sig("initial_velocity_not_refreshed_vector"), "velocity at trajectory start differs from the drawn momentum".to_string(), replay.clone());
            }
            ESH_AMPLIFICATION.with(|a| a.set(0.0));
            let (xr, vr) = reference_step(setup, &f, &c, &finv, &setup.start, &case.momentum, eps);
            let esh_amp = ESH_AMPLIFICATION.with(|a| a.get());
            let ex = rel_err(&end.position, &xr);
            let ev = rel_err(&end.velocity, &vr);
            // conditioning of the step itself (stiff densities; the ESH update when the momentum is almost opposite to
            // the gradient): how much a relative perturbation of 1e-9 of the inputs moves the reference result
            let xp: Vec<f64> = setup.start.iter().enumerate().map(|(i, x)| x * (1.0 + if i % 2 == 0 { 1e-9 } else { -1e-9 })).collect();
            let vp: Vec<f64> = case.momentum.iter().enumerate().map(|(i, x)| x * (1.0 + if i % 2 == 0 { -1e-9 } else { 1e-9 })).collect();
            let (xr2, vr2) = reference_step(setup, &f, &c, &finv, &xp, &vp, eps);
            let (ax, av) = (rel_err(&xr2, &xr) / 1e-9, rel_err(&vr2, &vr) / 1e-9);
            let (tol_x, tol_v) = (1e-9 + 500.0 * f64::EPSILON * (ax + esh_amp), 1e-9 + 500.0 * f64::EPSILON * (av + esh_amp));
            if !(ex <= tol_x) {
                report.violation(sig("position_vs_reference"), format!("forward={forward} rel err {ex:e} (tolerance {tol_x:e}) eps {eps}"), replay.clone());
            }
            if !(ev <= tol_v) {
                report.violation(sig("velocity_vs_reference"), format!("forward={forward} rel err {ev:e} (tolerance {tol_v:e}) eps {eps}"), replay.clone());
            }
            if end.index_in_trajectory != if forward { 1 } else { -1 } {
                report.violation(sig("index"), format!("index {} after one step forward={forward}", end.index_in_trajectory), replay.clone());
            }
            // reported energies describe the state
            if setup.kind != KineticEnergyKind::Microcanonical {
                let (lp, _) = logp_grad(&setup.target, &end.position);
                let want = 0.5 * dot(&end.velocity, &end.velocity) - (lp + end.logdet);
                if !((end.energy - want).abs() <= 1e-9 * (1.0 + want.abs())) {
                    report.violation(sig("energy_of_state"), format!("energy {} vs {}", end.energy, want), replay.clone());
                }
            }
            // (2) reversibility: step back from the result. The ESH half step contracts the momentum towards the
            // gradient direction by exp(-delta); its numerical inverse is only meaningful for moderate delta.
            let esh_delta = |pp: &PointParts| -> f64 {
                (d as f64).sqrt() * setup.step_size / 2.0 * norm(&pp.transformed_gradient) / (d as f64 - 1.0).max(1.0)
            };
            let well_conditioned = setup.kind != KineticEnergyKind::Microcanonical || (esh_delta(&init) < 1.0 && esh_delta(&end) < 1.0);
            let (_, back) = h.leapfrog(math, &end.position, &end.velocity, !forward, 1e300)?;
            if !well_conditioned {
                report.inconclusive("ESH contraction too strong for a numerical inverse");
            } else if let Some(back) = back {
                let ex = rel_err(&back.position, &setup.start);
                let ev = rel_err(&back.velocity, &case.momentum);
                // conditioning of the map grows with the scales of F and the curvature of the density: measure how much
                // a relative perturbation of 1e-9 of the intermediate position moves the result and allow rounding
                // errors (a few hundred ulp in the intermediate state) amplified by that factor
                let pert: Vec<f64> = end.position.iter().enumerate().map(|(i, x)| x * (1.0 + if i % 2 == 0 { 1e-9 } else { -1e-9 })).collect();
                let (sx, sv) = match h.leapfrog(math, &pert, &end.velocity, !forward, 1e300)? {
                    (_, Some(b2)) => (rel_err(&b2.position, &back.position) / 1e-9, rel_err(&b2.velocity, &back.velocity) / 1e-9),
                    _ => (0.0, 0.0),
                };
                let (tol_x, tol_v) = (1e-8 + 500.0 * f64::EPSILON * sx, 1e-8 + 500.0 * f64::EPSILON * sv);
                report.set("max_reversibility_amplification", json!(sx.max(sv)));
                if !(ex <= tol_x && ev <= tol_v) {
                    report.violation(sig("not_time_reversible"), format!("forward={forward}: back position err {ex:e} (tolerance {tol_x:e}) velocity err {ev:e} (tolerance {tol_v:e})"), replay.clone());
                }
            }
        }
        Ok(())
    });
    if let Err(e) = res {
        report.inconclusive("harness could not run the step");
        if verbose {
            eprintln!("error: {e}");
        }
    }
    let mut hsh = Fnv::new();
    hsh.str(kname).str(tname).u64(d as u64).str(setup.target.name());
    report.nontrivial(hsh.finish());
}

fn volume_case(report: &mut Report, seed: u64, idx: u64) {
    report.eval();
    let mut rng = HRng::new(seed).fork(0x70 + idx);
    let d = *rng.choose(&[1usize, 2, 3, 4]);
    let kind = if idx % 2 == 0 { KineticEnergyKind::Euclidean } else { KineticEnergyKind::ExactNormal };
    let target = match (idx / 2) % 4 {
        0 => Target::correlated(&mut rng, d, 4.0),
        1 => Target::Logistic { dim: d },
        2 => Target::StudentT { nu: 6.0, mu: vec![0.0; d], sigma: vec![1.0; d] },
        _ => if d >= 2 { Target::Banana { b: 0.3, dim: d } } else { Target::iso(d, 0.0) },
    };
    let lowrank = rng.bool(0.5);
    let transform = match Transform::random(&mut rng, d, lowrank) {
        Transform::Diag { mean, .. } => Transform::Diag { stds: (0..d).map(|_| rng.log_range(0.5, 2.0)).collect(), mean },
        Transform::LowRank { mean, vecs, mu_inner, vals, .. } => Transform::LowRank {
            stds: (0..d).map(|_| rng.log_range(0.5, 2.0)).collect(),
            mean,
            vals: vals.iter().map(|_| rng.log_range(0.5, 2.0)).collect(),
            vecs,
            mu_inner,
        },
    };
    let start: Vec<f64> = (0..d).map(|_| rng.range(-1.0, 1.0)).collect();
    let momentum = rng.normal_vec(d);
    let step_size = rng.log_range(0.01, 0.4);
    let setup = Setup { target, transform, kind, step_size, start };
    let case = Case { setup: setup.clone(), momentum, seed, idx };
    let case = &case;
    let setup = &case.setup;
    let kname = setup.kind_name();
    let tname = setup.transform.name();
    let replay = json!({"volume": true, "seed": seed, "idx": idx});
    let sig = |what: &str| format!("C02:{kname}:{tname}:{what}");
    let (f, c) = setup.transform.dense();
    let r: Result<(), String> = with_hamiltonian(setup, &mut |math, h| {
        let p0 = h.init_parts(math, &setup.start)?;
        // (3) volume preservation in the whitened phase space (Euclidean / ExactNormal, small d)
        {
            let y0 = p0.transformed_position.clone();
            let v0 = case.momentum.clone();
            let n2 = 2 * d;
            let mut jac = crate::util::mat_zeros(n2, n2);
            let hh = 1e-4 * (1.0 + norm(&y0) + norm(&v0));
            let mut ok = true;
            for k in 0..n2 {
                let mut outs = vec![];
                for sgn in [1.0, -1.0] {
                    let mut y = y0.clone();
                    let mut v = v0.clone();
                    if k < d { y[k] += sgn * hh } else { v[k - d] += sgn * hh }
                    let x: Vec<f64> = mat_vec(&f, &y).iter().zip(&c).map(|(a, b)| a + b).collect();
                    match h.leapfrog(math, &x, &v, true, 1e300)? {
                        (_, Some(e)) => outs.push(e),
                        _ => {
                            ok = false;
                            break;
                        }
                    }
                }
                if !ok {
                    break;
                }
                for r in 0..d {
                    jac[r][k] = (outs[0].transformed_position[r] - outs[1].transformed_position[r]) / (2.0 * hh);
                    jac[r + d][k] = (outs[0].velocity[r] - outs[1].velocity[r]) / (2.0 * hh);
                }
            }
            if ok {
                let dj = det(&jac);
                report.count("jacobians_evaluated", 1);
                if !((dj - 1.0).abs() <= 2e-5) {
                    report.violation(sig("not_volume_preserving"), format!("det of the step's Jacobian = {dj}"), replay.clone());
                }
            }
        }
        Ok(())
    });
    if r.is_err() {
        report.inconclusive("volume case could not run");
    }
    let mut hsh = Fnv::new();
    hsh.str("volume").str(kname).str(tname).u64(d as u64).str(setup.target.name());
    report.nontrivial(hsh.finish());
}

/// Integrate `n` steps of size T/n from the start; returns |H_end - H_start| computed by the harness.
fn energy_error(setup: &Setup, momentum: &[f64], n: usize, total: f64) -> Result<Option<f64>, String> {
    let mut s = setup.clone();
    s.step_size = total / n as f64;
    with_hamiltonian(&s, &mut |math, h| {
        let mut x = s.start.clone();
        let mut v = momentum.to_vec();
        let h_of = |x: &[f64], v: &[f64]| -> f64 { 0.5 * dot(v, v) - logp_grad(&s.target, x).0 };
        let h0 = h_of(&x, &v);
        for _ in 0..n {
            match h.leapfrog(math, &x, &v, true, 1e300)? {
                (_, Some(e)) => {
                    x = e.position;
                    v = e.velocity;
                }
                _ => return Ok(None),
            }
        }
        Ok(Some((h_of(&x, &v) - h0).abs()))
    })
}

fn order_case(report: &mut Report, seed: u64, idx: u64) {
    report.eval();
    let mut rng = HRng::new(seed).fork(0x0D0 + idx);
    let d = *rng.choose(&[1usize, 2, 3, 5, 8]);
    let target = match idx % 4 {
        0 => Target::correlated(&mut rng, d, 4.0),
        1 => Target::Logistic { dim: d },
        2 => Target::StudentT { nu: 6.0, mu: vec![0.0; d], sigma: vec![1.0; d] },
        _ => Target::scaled(&mut rng, d, 3.0),
    };
    let lowrank = rng.bool(0.5);
    // moderate transformation so that the asymptotic regime is reached with few steps
    let transform = match Transform::random(&mut rng, d, lowrank) {
        Transform::Diag { mean, .. } => Transform::Diag { stds: (0..d).map(|_| rng.log_range(0.5, 2.0)).collect(), mean },
        Transform::LowRank { mean, vecs, mu_inner, vals, .. } => Transform::LowRank {
            stds: (0..d).map(|_| rng.log_range(0.5, 2.0)).collect(),
            mean,
            vals: vals.iter().map(|_| rng.log_range(0.5, 2.0)).collect(),
            vecs,
            mu_inner,
        },
    };
    let start: Vec<f64> = (0..d).map(|_| rng.range(-1.0, 1.0)).collect();
    let momentum = rng.normal_vec(d);
    let setup = Setup { target, transform, kind: KineticEnergyKind::Euclidean, step_size: 0.1, start };
    let total = 0.4;
    let replay = json!({"order": true, "seed": seed, "idx": idx});
    let tname = setup.transform.name();
    let (e1, e2, e4) = match (
        energy_error(&setup, &momentum, 8, total),
        energy_error(&setup, &momentum, 16, total),
        energy_error(&setup, &momentum, 32, total),
    ) {
        (Ok(Some(a)), Ok(Some(b)), Ok(Some(c))) => (a, b, c),
        _ => {
            report.inconclusive("order test could not integrate");
            return;
        }
    };
    if e2 < 1e-10 || e1 > 1e-2 || e4 < 1e-11 {
        report.inconclusive("energy error outside the asymptotic window");
        return;
    }
    let r1 = e1 / e2;
    let r2 = e2 / e4;
    report.count("order_ratios_measured", 1);
    let mut h = Fnv::new();
    h.str("order").str(tname).u64(d as u64).str(setup.target.name());
    report.nontrivial(h.finish());
    // second order: halving the step divides the error of a fixed integration time by ~4.
    // The finer pair is decisive; energy error curves can cross zero, so only a ratio that is
    // clearly first order (or worse) on both pairs is a violation.
    if r2 < 2.6 && r1 < 2.6 {
        report.violation(
            format!("C02:euclidean:{tname}:energy_error_not_second_order"),
            format!("|dH| for n=8,16,32 steps over T={total}: {e1:e} {e2:e} {e4:e} (ratios {r1:.2} {r2:.2})"),
            replay,
        );
    } else if !(2.6..=6.5).contains(&r2) {
        report.inconclusive("energy error ratio outside [2.6,6.5] on one pair only");
    }
}

fn exact_normal_case(report: &mut Report, seed: u64, idx: u64) {
    report.eval();
    let mut rng = HRng::new(seed).fork(0xE0 + idx);
    let d = *rng.choose(&[1usize, 2, 3, 5, 8, 16, 33, 64]);
    let lowrank = rng.bool(0.5);
    let transform = if idx % 3 == 0 {
        Transform::Diag { stds: vec![1.0; d], mean: vec![0.0; d] }
    } else {
        Transform::random(&mut rng, d, lowrank)
    };
    // the target that this transformation whitens exactly: N(c, F F^T)
    let (f, c) = transform.dense();
    let cov = mat_mul(&f, &mat_t(&f));
    let target = if idx % 3 == 0 { Target::iso(d, 0.0) } else { Target::from_cov(c.clone(), cov) };
    let y0 = rng.normal_vec(d);
    let start: Vec<f64> = mat_vec(&f, &y0).iter().zip(&c).map(|(a, b)| a + b).collect();
    let momentum = rng.normal_vec(d);
    let eps = match idx % 4 {
        0 => rng.log_range(1e-3, 1.0),
        1 => rng.range(1.0, 10.0),
        2 => rng.range(10.0, 1000.0),
        _ => -rng.range(0.1, 3.0),
    };
    let setup = Setup { target, transform, kind: KineticEnergyKind::ExactNormal, step_size: eps.abs(), start };
    let replay = json!({"exact_normal": true, "seed": seed, "idx": idx});
    let tname = setup.transform.name();
    let r = with_hamiltonian(&setup, &mut |math, h| h.leapfrog(math, &setup.start, &momentum, eps > 0.0, 1e300));
    match r {
        Ok((init, Some(end))) => {
            let de = (end.energy - init.energy).abs();
            // conditioning: the energy is a difference of terms of size |H|; dense F adds rounding
            let cond_slack = if idx % 3 == 0 { 1e-12 } else { 1e-9 };
            let mut h = Fnv::new();
            h.str("exact").str(tname).u64(d as u64).u64(idx % 4);
            report.nontrivial(h.finish());
            report.count("exact_normal_steps", 1);
            if !(de <= cond_slack * (1.0 + init.energy.abs())) {
                report.violation(
                    format!("C02:exact_normal:{tname}:energy_not_conserved_on_normal"),
                    format!("dim {d} eps {eps}: H {} -> {} (|dH| {de:e})", init.energy, end.energy),
                    replay,
                );
            }
        }
        Ok((_, None)) => report.violation(
            format!("C02:exact_normal:{tname}:divergence_on_normal"),
            format!("dim {d} eps {eps}: step reported a divergence"),
            replay,
        ),
        Err(_) => report.inconclusive("exact normal step failed to run"),
    }
}

// ───────────────────── transformations produced by adaptation ───────────────

/// The transformations the sampler builds itself (gradient-based initial scales, window estimates, clamped
/// estimates on extremely scaled coordinates) are bijections too: with the scales in force for a draw,
/// x = std * y + mean, grad_y = std * grad_x and std * inv_std = 1 on every reported point.
fn adapted_case(report: &mut Report, seed: u64, idx: u64) {
    use crate::chains::{Preset, chain_on, start_point};
    use crate::dens::Logged;
    use serde_json::Value as J;
    report.eval();
    let mut rng = HRng::new(seed).fork(0xADA97 + idx);
    let preset = if idx % 2 == 0 { Preset::DiagNuts } else { Preset::DiagMclmc };
    let d = 1 + rng.below(6) as usize;
    // scales: ordinary, or with coordinates beyond the documented clamp of the estimate (1e-10 .. 1e10)
    let extreme = (idx / 2) % 3;
    let sigma: Vec<f64> = (0..d)
        .map(|i| match (extreme, i % 2) {
            (1, 0) => 10f64.powf(rng.range(10.5, 14.0)),
            (2, 0) => 10f64.powf(rng.range(-14.0, -10.5)),
            _ => rng.log_range(1e-3, 1e3),
        })
        .collect();
    let mu: Vec<f64> = (0..d).map(|i| sigma[i] * rng.range(-3.0, 3.0)).collect();
    let target = Target::Diag { mu, sigma: sigma.clone() };
    let start = start_point(&target, &mut rng);
    let mut patches: Vec<(&str, J)> = vec![
        ("num_tune", json!(120)),
        ("num_draws", json!(10)),
        ("store_transformed", json!(true)),
        ("store_unconstrained", json!(true)),
        ("store_gradient", json!(true)),
        ("adapt_options.early_mass_matrix_switch_freq", json!(5)),
        ("adapt_options.mass_matrix_switch_freq", json!(12)),
    ];
    if preset.is_nuts() {
        patches.push(("maxdepth", json!(6)));
    }
    // the scales come from the draw / gradient variance ratio (default) or from the draw variance alone
    let draw_only = (idx / 6) % 2 == 1;
    if draw_only {
        patches.push(("adapt_options.mass_matrix_options.use_grad_based_estimate", json!(false)));
    }
    let replay = json!({"adapted": true, "seed": seed, "idx": idx});
    let Ok((mut chain, skipped)) = chain_on(preset, &patches, Logged::new(target, false), rng.next_u64()) else {
        report.inconclusive("adapted: settings rejected");
        return;
    };
    if !skipped.is_empty() {
        report.inconclusive("adapted: settings path missing");
        return;
    }
    if chain.set_position(&start).is_err() {
        report.inconclusive("adapted: set_position failed");
        return;
    }
    let Some(mut pre) = chain.scales() else {
        report.inconclusive("adapted: no scales");
        return;
    };
    let (mut n_ids, mut n_clamped) = (0u64, 0u64);
    for dd in 0..130u64 {
        let o = match crate::util::guard(|| chain.draw()) {
            Ok(Ok(o)) => o,
            _ => {
                report.inconclusive("adapted: draw failed");
                return;
            }
        };
        let post = chain.scales().unwrap();
        if post.id != pre.id {
            n_ids += 1;
        }
        // the id is what makes the next trajectory re-derive the whitened coordinates of its start point: new scales
        // under an old id leave the cached point in the previous coordinates
        let same_bits = |a: &[f64], b: &[f64]| a.iter().zip(b).all(|(x, y)| x.to_bits() == y.to_bits());
        if post.id == pre.id && !(same_bits(&post.stds, &pre.stds) && same_bits(&post.mean, &pre.mean) && same_bits(&post.inv_stds, &pre.inv_stds)) {
            report.violation(
                format!("C02:{}:scales_changed_without_new_transformation_id", preset.name()),
                format!("draw {dd} (draw-only estimate: {draw_only}): stds {:?} -> {:?}, mean {:?} -> {:?}, transformation id stays {}", pre.stds, post.stds, pre.mean, post.mean, post.id),
                replay,
            );
            return;
        }
        for i in 0..d {
            if !((post.stds[i] * post.inv_stds[i] - 1.0).abs() <= 1e-9) {
                report.violation(
                    format!("C02:{}:adapted_transformation_inverse_scale_inconsistent", preset.name()),
                    format!("draw {dd}: coordinate {i} (sigma {:e}): std {:e} x inv_std {:e} = {:e}", sigma[i], post.stds[i], post.inv_stds[i], post.stds[i] * post.inv_stds[i]),
                    replay,
                );
                return;
            }
            if post.stds[i] <= 1.0000001e-10 || post.stds[i] >= 0.9999999e10 {
                n_clamped += 1;
            }
        }
        let want_logdet: f64 = post.inv_stds.iter().map(|v| v.ln()).sum();
        if !((post.logdet - want_logdet).abs() <= 1e-9 * (1.0 + want_logdet.abs())) {
            report.violation(format!("C02:{}:adapted_transformation_logdet", preset.name()), format!("draw {dd}: logdet {} vs sum ln inv_std {want_logdet}", post.logdet), replay);
            return;
        }
        if let (Some(y), Some(x)) = (o.vec("transformed_position"), o.vec("unconstrained_draw")) {
            let fits = |s: &crate::chains::Scales| (0..d).all(|i| (s.stds[i] * y[i] + s.mean[i] - x[i]).abs() <= 1e-9 * (x[i].abs() + s.mean[i].abs() + (s.stds[i] * y[i]).abs()));
            if !(fits(&pre) || fits(&post)) {
                report.violation(
                    format!("C02:{}:adapted_transformation_not_a_bijection", preset.name()),
                    format!("draw {dd}: x {x:?} is not std * y + mean for y {y:?} with stds {:?} / mean {:?} (inv_stds {:?})", pre.stds, pre.mean, pre.inv_stds),
                    replay,
                );
                return;
            }
            report.count("adapted_points_checked", 1);
        }
        if let (Some(gy), Some(gx)) = (o.vec("transformed_gradient"), o.vec("gradient")) {
            let fits = |s: &crate::chains::Scales| (0..d).all(|i| (s.stds[i] * gx[i] - gy[i]).abs() <= 1e-9 * gy[i].abs().max(1e-300));
            if !(fits(&pre) || fits(&post)) {
                report.violation(
                    format!("C02:{}:adapted_transformation_gradient_pull_back", preset.name()),
                    format!("draw {dd}: grad_y {gy:?} is not std * grad_x for grad_x {gx:?}, stds {:?}", pre.stds),
                    replay,
                );
                return;
            }
        }
        pre = post;
    }
    report.count("adapted_transformations_seen", n_ids);
    report.count("adapted_clamped_scales_seen", n_clamped);
    let mut h = Fnv::new();
    h.str("adapted").str(preset.name()).u64(extreme).u64(d as u64).u64((n_clamped > 0) as u64).u64(draw_only as u64);
    report.nontrivial(h.finish());
}

pub fn run(args: &Args, report: &mut Report) {
    report.rule = "cases = dims {1,2,3,5,8,16,33,64} x kinetic kinds {Euclidean, ExactNormal, Microcanonical} x 6 target families x \
        random diagonal / low-rank (rank 0..d) transformations, start, momentum, step size, both directions: single step vs dense \
        reference, forward+backward = identity, finite-difference Jacobian determinant (d<=5), transformation consistency; plus \
        energy-error order cases and ExactNormal-on-Gaussian cases; transformations built by the sampler's own adaptation in real \
        chains (ordinary scales and scales beyond the clamp of the estimate) checked as bijections on every reported point; distinct = (kind, transformation kind, dim, target family)".into();
    report.assumptions.push("volume preservation is checked in whitened (y, v) coordinates for Euclidean and ExactNormal kinds only; the isokinetic ESH map lives on the unit sphere and is checked against its closed form instead".into());
    if let Some(r) = &args.replay {
        let seed = r["seed"].as_u64().unwrap();
        let idx = r["idx"].as_u64().unwrap();
        if r.get("adapted").is_some() {
            adapted_case(report, seed, idx)
        } else if r.get("volume").is_some() {
            volume_case(report, seed, idx)
        } else if r.get("order").is_some() {
            order_case(report, seed, idx)
        } else if r.get("exact_normal").is_some() {
            exact_normal_case(report, seed, idx)
        } else {
            check_case(report, &gen_case(seed, idx), true)
        }
        return;
    }
    let n = report.size(16_000, 6_000_000);
    let n_order = report.size(1600, 400_000);
    let n_exact = report.size(3200, 1_000_000);
    let n_vol = report.size(2400, 600_000);
    let seed = args.seed ^ 0xC02;
    let n_adapted = report.size(720, 60_000);
    crate::report::par_run(report, n_adapted, |i, rep| adapted_case(rep, seed, i));
    crate::report::par_run(report, n + n_order + n_exact + n_vol, |i, rep| {
        if i < n {
            let c = gen_case(seed, i);
            check_case(rep, &c, false);
            if i % 1009 == 0 {
                rep.sample(json!({"idx": i, "setup": c.setup.to_json(), "momentum": c.momentum}));
            }
        } else if i < n + n_order {
            order_case(rep, seed, i - n)
        } else if i < n + n_order + n_exact {
            exact_normal_case(rep, seed, i - n - n_order)
        } else {
            volume_case(rep, seed, i - n - n_order - n_exact)
        }
    });
}
