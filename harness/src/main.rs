//! nutsverif: runtime monitors for the nuts-rs properties C01..C19.
//!
//! usage: nutsverif <cXX> --tier quick|thorough --seed N --out report.json [--replay file]
//!        [--mode <name>] (sub-mode used by the sanitizer / Miri passes)

#![allow(dead_code, unused_imports, clippy::too_many_arguments, clippy::type_complexity, clippy::needless_range_loop)]

mod chains;
mod dens;
mod par;
mod recorder;
mod report;
mod sched;
mod storage_util;
mod script;
mod tree;
mod util;

mod c01;
mod c02;
mod c03;
mod c04;
mod c05;
mod c06;
mod c07;
mod c08;
mod c09;
mod c10;
mod c11;
mod c12;
mod c13;
mod c14;
mod c15;
mod c16;
mod c17;
mod c18;
mod c19;

use report::Report;

pub struct Args {
    pub tier: String,
    pub seed: u64,
    pub out: Option<String>,
    pub replay: Option<serde_json::Value>,
    pub mode: Option<String>,
}

fn main() {
    let argv: Vec<String> = std::env::args().collect();
    if argv.len() < 2 {
        eprintln!("usage: nutsverif <cXX> --tier quick|thorough --seed N --out file [--replay file]");
        std::process::exit(2);
    }
    let prop = argv[1].to_lowercase();
    let mut args = Args { tier: "quick".into(), seed: 0, out: None, replay: None, mode: None };
    let mut i = 2;
    while i < argv.len() {
        match argv[i].as_str() {
            "--tier" => {
                args.tier = argv[i + 1].clone();
                i += 1
            }
            "--seed" => {
                args.seed = argv[i + 1].parse().expect("seed");
                i += 1
            }
            "--out" => {
                args.out = Some(argv[i + 1].clone());
                i += 1
            }
            "--mode" => {
                args.mode = Some(argv[i + 1].clone());
                i += 1
            }
            "--replay" => {
                let txt = std::fs::read_to_string(&argv[i + 1]).expect("read replay file");
                let v: serde_json::Value = serde_json::from_str(&txt).expect("parse replay file");
                args.replay = Some(v.get("replay").cloned().unwrap_or(v));
                i += 1
            }
            other => {
                eprintln!("unknown argument {other}");
                std::process::exit(2)
            }
        }
        i += 1;
    }
    let mut report = Report::new(&prop.to_uppercase(), &args.tier, args.seed);
    util::install_quiet_panic_hook();
    match prop.as_str() {
        "c01" => c01::run(&args, &mut report),
        "c02" => c02::run(&args, &mut report),
        "c03" => c03::run(&args, &mut report),
        "c04" => c04::run(&args, &mut report),
        "c05" => c05::run(&args, &mut report),
        "c06" => c06::run(&args, &mut report),
        "c07" => c07::run(&args, &mut report),
        "c08" => c08::run(&args, &mut report),
        "c09" => c09::run(&args, &mut report),
        "c10" => c10::run(&args, &mut report),
        "c11" => c11::run(&args, &mut report),
        "c12" => c12::run(&args, &mut report),
        "c13" => c13::run(&args, &mut report),
        "c14" => c14::run(&args, &mut report),
        "c15" => c15::run(&args, &mut report),
        "c16" => c16::run(&args, &mut report),
        "c17" => c17::run(&args, &mut report),
        "c18" => c18::run(&args, &mut report),
        "c19" => c19::run(&args, &mut report),
        _ => {
            eprintln!("unknown property {prop}");
            std::process::exit(2)
        }
    }
    let json = serde_json::to_string_pretty(&report.to_json()).unwrap();
    match &args.out {
        Some(path) => std::fs::write(path, json).expect("write report"),
        None => println!("{json}"),
    }
}
