//! Uniform dynamic interface over the six settings presets.

use std::ops::Deref;

use nuts_rs::verif::{DiagAdaptStrategy, GlobalStrategy, LowRankMassMatrixStrategy, StatsDims, VerifWindowState};
use nuts_rs::{
    Chain, DiagMclmcSettings, DiagNutsSettings, FlowMclmcSettings, FlowNutsSettings, ItemType,
    LowRankMclmcSettings, LowRankNutsSettings, Math, Progress, Settings, Storable, Value,
};
use rand::SeedableRng;
use serde_json::{Value as J, json};

use crate::dens::{Logged, Target};
use crate::script::ScriptMath;

pub type SM = ScriptMath<Logged>;

#[derive(Clone, Copy, Debug, PartialEq, Eq, PartialOrd, Ord, Hash)]
pub enum Preset {
    DiagNuts,
    LowRankNuts,
    FlowNuts,
    DiagMclmc,
    LowRankMclmc,
    FlowMclmc,
}

pub const ALL_PRESETS: [Preset; 6] = [
    Preset::DiagNuts,
    Preset::LowRankNuts,
    Preset::FlowNuts,
    Preset::DiagMclmc,
    Preset::LowRankMclmc,
    Preset::FlowMclmc,
];
pub const NUTS_PRESETS: [Preset; 3] = [Preset::DiagNuts, Preset::LowRankNuts, Preset::FlowNuts];

impl Preset {
    pub fn name(&self) -> &'static str {
        match self {
            Preset::DiagNuts => "diag_nuts",
            Preset::LowRankNuts => "lowrank_nuts",
            Preset::FlowNuts => "flow_nuts",
            Preset::DiagMclmc => "diag_mclmc",
            Preset::LowRankMclmc => "lowrank_mclmc",
            Preset::FlowMclmc => "flow_mclmc",
        }
    }
    pub fn from_name(s: &str) -> Option<Preset> {
        ALL_PRESETS.iter().copied().find(|p| p.name() == s)
    }
    pub fn is_nuts(&self) -> bool {
        matches!(self, Preset::DiagNuts | Preset::LowRankNuts | Preset::FlowNuts)
    }
    pub fn is_flow(&self) -> bool {
        matches!(self, Preset::FlowNuts | Preset::FlowMclmc)
    }
    pub fn is_lowrank(&self) -> bool {
        matches!(self, Preset::LowRankNuts | Preset::LowRankMclmc)
    }
    pub fn default_json(&self) -> J {
        match self {
            Preset::DiagNuts => serde_json::to_value(DiagNutsSettings::default()).unwrap(),
            Preset::LowRankNuts => serde_json::to_value(LowRankNutsSettings::default()).unwrap(),
            Preset::FlowNuts => serde_json::to_value(FlowNutsSettings::default()).unwrap(),
            Preset::DiagMclmc => serde_json::to_value(DiagMclmcSettings::default()).unwrap(),
            Preset::LowRankMclmc => serde_json::to_value(LowRankMclmcSettings::default()).unwrap(),
            Preset::FlowMclmc => serde_json::to_value(FlowMclmcSettings::default()).unwrap(),
        }
    }
}

/// Set `value` at the dotted `path` of a JSON object; returns false if the path does not exist.
pub fn patch(j: &mut J, path: &str, value: J) -> bool {
    let mut cur = j;
    let parts: Vec<&str> = path.split('.').collect();
    for (i, p) in parts.iter().enumerate() {
        let Some(obj) = cur.as_object_mut() else { return false };
        if i == parts.len() - 1 {
            if !obj.contains_key(*p) {
                return false;
            }
            obj.insert(p.to_string(), value);
            return true;
        }
        let Some(next) = obj.get_mut(*p) else { return false };
        cur = next;
    }
    false
}

pub fn get_path<'a>(j: &'a J, path: &str) -> Option<&'a J> {
    let mut cur = j;
    for p in path.split('.') {
        cur = cur.as_object()?.get(p)?;
    }
    Some(cur)
}

/// Settings of a preset as JSON with patches applied (paths that do not exist for a preset are
/// skipped and reported).
pub fn settings_json(preset: Preset, patches: &[(&str, J)]) -> (J, Vec<String>) {
    let mut j = preset.default_json();
    let mut skipped = vec![];
    for (p, v) in patches {
        if !patch(&mut j, p, v.clone()) {
            skipped.push(p.to_string());
        }
    }
    (j, skipped)
}

#[derive(Clone, Debug)]
pub struct Schema {
    pub names: Vec<String>,
    pub types: Vec<(String, ItemType)>,
    pub dims: Vec<(String, Vec<String>)>,
    pub event_dims: Vec<(String, Option<String>)>,
    pub dim_sizes: std::collections::HashMap<String, u64>,
    pub data_names: Vec<String>,
}

#[derive(Clone, Debug)]
pub struct DrawOut {
    pub position: Vec<f64>,
    pub stats: Vec<(String, Option<Value>)>,
    pub expanded: Vec<(String, Option<Value>)>,
    pub progress: Progress,
}

impl DrawOut {
    pub fn stat(&self, name: &str) -> Option<&Value> {
        self.stats.iter().find(|(n, _)| n == name).and_then(|(_, v)| v.as_ref())
    }
    pub fn f64(&self, name: &str) -> Option<f64> {
        match self.stat(name)? {
            Value::ScalarF64(x) => Some(*x),
            _ => None,
        }
    }
    pub fn u64(&self, name: &str) -> Option<u64> {
        match self.stat(name)? {
            Value::ScalarU64(x) => Some(*x),
            _ => None,
        }
    }
    pub fn i64(&self, name: &str) -> Option<i64> {
        match self.stat(name)? {
            Value::ScalarI64(x) => Some(*x),
            _ => None,
        }
    }
    pub fn bool(&self, name: &str) -> Option<bool> {
        match self.stat(name)? {
            Value::ScalarBool(x) => Some(*x),
            _ => None,
        }
    }
    pub fn vec(&self, name: &str) -> Option<&Vec<f64>> {
        match self.stat(name)? {
            Value::F64(x) => Some(x),
            _ => None,
        }
    }
}

#[derive(Clone, Debug, Default)]
pub struct Scales {
    pub stds: Vec<f64>,
    pub inv_stds: Vec<f64>,
    pub mean: Vec<f64>,
    pub logdet: f64,
    pub id: i64,
    /// sqrt eigenvalues / inverse sqrt eigenvalues / inner mu of the low-rank part
    pub eig_sqrt: Vec<f64>,
    pub eig_sqrt_inv: Vec<f64>,
    pub inner_mu: Vec<f64>,
}

pub trait DynChain {
    fn set_position(&mut self, x: &[f64]) -> anyhow::Result<()>;
    fn draw(&mut self) -> anyhow::Result<DrawOut>;
    fn plain_draw(&mut self) -> anyhow::Result<(Vec<f64>, Progress)>;
    fn window(&self) -> Option<VerifWindowState>;
    fn scales(&self) -> Option<Scales>;
    fn with_math(&self, f: &mut dyn FnMut(&mut SM));
    fn current_step_size(&self) -> f64;
    fn schema(&self) -> &Schema;
    fn settings_json(&self) -> &J;
    /// whitened position / gradient / velocity of the current state
    fn state_parts(&self) -> Option<nuts_rs::verif::PointParts>;
}

trait Introspect {
    fn window(&self) -> Option<VerifWindowState>;
    fn scales(&self) -> Option<Scales>;
    fn step_size(&self) -> f64;
    fn with_math(&self, f: &mut dyn FnMut(&mut SM));
    fn state_parts(&self) -> Option<nuts_rs::verif::PointParts>;
}

use nuts_rs::verif::{DiagMassMatrix, ExternalTransformAdaptation, ExternalTransformation, LowRankMassMatrix, NutsChain};
use nuts_rs::MclmcChain;
use rand::rngs::ChaCha8Rng;

type DiagNutsChainT = NutsChain<SM, ChaCha8Rng, GlobalStrategy<SM, DiagAdaptStrategy<SM>>>;
type LowRankNutsChainT = NutsChain<SM, ChaCha8Rng, GlobalStrategy<SM, LowRankMassMatrixStrategy>>;
type FlowNutsChainT = NutsChain<SM, ChaCha8Rng, ExternalTransformAdaptation>;
type DiagMclmcChainT = MclmcChain<SM, ChaCha8Rng, GlobalStrategy<SM, DiagAdaptStrategy<SM>>, DiagMassMatrix<SM>>;
type LowRankMclmcChainT = MclmcChain<SM, ChaCha8Rng, GlobalStrategy<SM, LowRankMassMatrixStrategy>, LowRankMassMatrix<SM>>;
type FlowMclmcChainT = MclmcChain<SM, ChaCha8Rng, ExternalTransformAdaptation, ExternalTransformation<SM>>;

fn diag_scales(math: &mut SM, m: &nuts_rs::verif::DiagMassMatrix<SM>) -> Scales {
    let p = nuts_rs::verif::diag_parts(math, m);
    Scales { stds: p.stds, inv_stds: p.inv_stds, mean: p.mean, logdet: p.logdet, id: p.id, ..Default::default() }
}

fn lowrank_scales(math: &mut SM, m: &nuts_rs::verif::LowRankMassMatrix<SM>) -> Scales {
    let p = m.verif_parts(math);
    let mut s = Scales { stds: p.stds, inv_stds: p.inv_stds, mean: p.mean, logdet: p.logdet, id: p.id, ..Default::default() };
    if let Some((a, b, mu, _)) = p.inner {
        s.eig_sqrt = a;
        s.eig_sqrt_inv = b;
        s.inner_mu = mu;
    }
    s
}

macro_rules! impl_introspect {
    ($t:ty, $window:expr, $scales:expr) => {
        impl Introspect for $t {
            fn window(&self) -> Option<VerifWindowState> {
                #[allow(clippy::redundant_closure_call)]
                ($window)(self)
            }
            fn scales(&self) -> Option<Scales> {
                #[allow(clippy::redundant_closure_call)]
                ($scales)(self)
            }
            fn step_size(&self) -> f64 {
                use nuts_rs::verif::Hamiltonian;
                self.verif_hamiltonian().step_size()
            }
            fn with_math(&self, f: &mut dyn FnMut(&mut SM)) {
                let mut m = self.verif_math();
                f(&mut m)
            }
            fn state_parts(&self) -> Option<nuts_rs::verif::PointParts> {
                let mut m = self.verif_math();
                Some(nuts_rs::verif::point_parts(&mut *m, self.verif_state().point()))
            }
        }
    };
}

impl_introspect!(
    DiagNutsChainT,
    |c: &DiagNutsChainT| Some(c.verif_strategy().verif_window_state()),
    |c: &DiagNutsChainT| {
        let mut m = c.verif_math();
        Some(diag_scales(&mut m, c.verif_hamiltonian().transformation()))
    }
);
impl_introspect!(
    LowRankNutsChainT,
    |c: &LowRankNutsChainT| Some(c.verif_strategy().verif_window_state()),
    |c: &LowRankNutsChainT| {
        let mut m = c.verif_math();
        Some(lowrank_scales(&mut m, c.verif_hamiltonian().transformation()))
    }
);
impl_introspect!(FlowNutsChainT, |_c: &FlowNutsChainT| None, |_c: &FlowNutsChainT| None);
impl_introspect!(
    DiagMclmcChainT,
    |c: &DiagMclmcChainT| Some(c.verif_strategy().verif_window_state()),
    |c: &DiagMclmcChainT| {
        let mut m = c.verif_math();
        Some(diag_scales(&mut m, c.verif_hamiltonian().transformation()))
    }
);
impl_introspect!(
    LowRankMclmcChainT,
    |c: &LowRankMclmcChainT| Some(c.verif_strategy().verif_window_state()),
    |c: &LowRankMclmcChainT| {
        let mut m = c.verif_math();
        Some(lowrank_scales(&mut m, c.verif_hamiltonian().transformation()))
    }
);
impl_introspect!(FlowMclmcChainT, |_c: &FlowMclmcChainT| None, |_c: &FlowMclmcChainT| None);

struct ChainBox<C> {
    chain: C,
    schema: Schema,
    settings: J,
}

fn own(v: Vec<(&str, Option<Value>)>) -> Vec<(String, Option<Value>)> {
    v.into_iter().map(|(n, v)| (n.to_string(), v)).collect()
}

impl<C: Chain<SM> + Introspect> DynChain for ChainBox<C> {
    fn set_position(&mut self, x: &[f64]) -> anyhow::Result<()> {
        self.chain.set_position(x)
    }
    fn draw(&mut self) -> anyhow::Result<DrawOut> {
        let (pos, mut expanded, mut stats, progress) = self.chain.expanded_draw()?;
        let math = self.chain.math();
        let dims = StatsDims::from(math.deref());
        let stats = own(stats.get_all(&dims));
        let expanded = own(expanded.get_all(math.deref()));
        Ok(DrawOut { position: pos.into_vec(), stats, expanded, progress })
    }
    fn plain_draw(&mut self) -> anyhow::Result<(Vec<f64>, Progress)> {
        let (p, pr) = self.chain.draw()?;
        Ok((p.into_vec(), pr))
    }
    fn window(&self) -> Option<VerifWindowState> {
        Introspect::window(&self.chain)
    }
    fn scales(&self) -> Option<Scales> {
        Introspect::scales(&self.chain)
    }
    fn with_math(&self, f: &mut dyn FnMut(&mut SM)) {
        Introspect::with_math(&self.chain, f)
    }
    fn current_step_size(&self) -> f64 {
        Introspect::step_size(&self.chain)
    }
    fn schema(&self) -> &Schema {
        &self.schema
    }
    fn settings_json(&self) -> &J {
        &self.settings
    }
    fn state_parts(&self) -> Option<nuts_rs::verif::PointParts> {
        Introspect::state_parts(&self.chain)
    }
}

fn schema_of<S: Settings>(s: &S, math: &SM) -> Schema {
    Schema {
        names: s.stat_names(math),
        types: s.stat_types(math),
        dims: s.stat_dims_all(math),
        event_dims: s.stat_event_dims(math),
        dim_sizes: s.stat_dim_sizes(math),
        data_names: s.data_names(math),
    }
}

fn build_typed<S>(j: &J, math: SM, seed: u64, chain_id: u64) -> anyhow::Result<Box<dyn DynChain>>
where
    S: Settings,
    S::Chain<SM>: Introspect + 'static,
{
    let settings: S = serde_json::from_value(j.clone())?;
    let schema = schema_of(&settings, &math);
    let mut rng = rand::rngs::ChaCha8Rng::seed_from_u64(seed);
    let chain = settings.new_chain(chain_id, math, &mut rng);
    Ok(Box::new(ChainBox { chain, schema, settings: j.clone() }))
}

/// Build a chain of `preset` from JSON settings over the given math.
pub fn build_chain(preset: Preset, j: &J, math: SM, seed: u64, chain_id: u64) -> anyhow::Result<Box<dyn DynChain>> {
    match preset {
        Preset::DiagNuts => build_typed::<DiagNutsSettings>(j, math, seed, chain_id),
        Preset::LowRankNuts => build_typed::<LowRankNutsSettings>(j, math, seed, chain_id),
        Preset::FlowNuts => build_typed::<FlowNutsSettings>(j, math, seed, chain_id),
        Preset::DiagMclmc => build_typed::<DiagMclmcSettings>(j, math, seed, chain_id),
        Preset::LowRankMclmc => build_typed::<LowRankMclmcSettings>(j, math, seed, chain_id),
        Preset::FlowMclmc => build_typed::<FlowMclmcSettings>(j, math, seed, chain_id),
    }
}

/// Convenience: chain over a logged target.
pub fn chain_on(
    preset: Preset,
    patches: &[(&str, J)],
    dens: Logged,
    seed: u64,
) -> anyhow::Result<(Box<dyn DynChain>, Vec<String>)> {
    let (j, skipped) = settings_json(preset, patches);
    let math = ScriptMath::new(dens);
    Ok((build_chain(preset, &j, math, seed, 0)?, skipped))
}

pub fn value_to_json(v: &Value) -> J {
    match v {
        Value::U64(x) => json!(x),
        Value::I64(x) => json!(x),
        Value::F64(x) => crate::util::fmt_f64s(x),
        Value::F32(x) => json!(x.iter().map(|v| *v as f64).collect::<Vec<_>>()),
        Value::Bool(x) => json!(x),
        Value::ScalarString(x) => json!(x),
        Value::DateTime64(_, x) => json!(x),
        Value::TimeDelta64(_, x) => json!(x),
        Value::ScalarU64(x) => json!(x),
        Value::ScalarI64(x) => json!(x),
        Value::ScalarF64(x) => {
            if x.is_finite() { json!(x) } else { json!(format!("{x}")) }
        }
        Value::ScalarF32(x) => json!(*x as f64),
        Value::ScalarBool(x) => json!(x),
        Value::Strings(x) => json!(x),
    }
}

/// Default starting point: a fixed pseudo-random point near the bulk.
pub fn start_point(target: &Target, rng: &mut crate::util::HRng) -> Vec<f64> {
    let d = target.dim();
    match target.moments() {
        Some((m, v)) => (0..d).map(|i| m[i] + 0.5 * v[i].sqrt() * rng.normal()).collect(),
        None => (0..d).map(|_| 0.3 * rng.normal()).collect(),
    }
}
