//! Report emitted by every check; the python driver turns it into evidence / verdict lines.

use std::collections::{BTreeMap, BTreeSet};

use serde_json::{Map, Value, json};

#[derive(Debug, Clone)]
pub struct Violation {
    /// Stable, specific identification of *what* failed (matched against known findings).
    pub signature: String,
    pub detail: String,
    /// Everything needed to re-execute the failing case.
    pub replay: Value,
}

#[derive(Debug)]
pub struct Report {
    pub property: String,
    pub tier: String,
    pub seed: u64,
    pub evaluations: u64,
    pub distinct: BTreeSet<u64>,
    pub rule: String,
    pub samples: Vec<Value>,
    pub violations: Vec<Violation>,
    pub violation_counts: BTreeMap<String, u64>,
    pub inconclusive: BTreeMap<String, u64>,
    pub extra: Map<String, Value>,
    pub assumptions: Vec<String>,
    pub exhaustive: bool,
    start: std::time::Instant,
}

impl Report {
    pub fn new(property: &str, tier: &str, seed: u64) -> Self {
        Report {
            property: property.into(),
            tier: tier.into(),
            seed,
            evaluations: 0,
            distinct: BTreeSet::new(),
            rule: String::new(),
            samples: vec![],
            violations: vec![],
            violation_counts: BTreeMap::new(),
            inconclusive: BTreeMap::new(),
            extra: Map::new(),
            assumptions: vec![],
            exhaustive: false,
            start: std::time::Instant::now(),
        }
    }

    pub fn thorough(&self) -> bool {
        self.tier == "thorough"
    }

    /// Choose a size by tier.
    pub fn size(&self, quick: u64, thorough: u64) -> u64 {
        if self.thorough() { thorough } else { quick }
    }

    pub fn eval(&mut self) {
        self.evaluations += 1;
    }

    pub fn evals(&mut self, n: u64) {
        self.evaluations += n;
    }

    /// Register a distinct non-trivial case by its hash.
    pub fn nontrivial(&mut self, hash: u64) {
        self.distinct.insert(hash);
    }

    pub fn sample(&mut self, v: Value) {
        if self.samples.len() < 6 {
            self.samples.push(v);
        }
    }

    pub fn inconclusive(&mut self, reason: &str) {
        *self.inconclusive.entry(reason.into()).or_default() += 1;
    }

    /// Record a violation. Only the first few per signature keep their replay payload.
    pub fn violation(&mut self, signature: impl Into<String>, detail: impl Into<String>, replay: Value) {
        let signature = signature.into();
        let c = self.violation_counts.entry(signature.clone()).or_default();
        *c += 1;
        if *c <= 3 && self.violations.len() < 200 {
            self.violations.push(Violation {
                signature,
                detail: detail.into(),
                replay,
            });
        }
    }

    pub fn count(&mut self, key: &str, n: u64) {
        let e = self.extra.entry(key.to_string()).or_insert(json!(0));
        *e = json!(e.as_u64().unwrap_or(0) + n);
    }

    pub fn set(&mut self, key: &str, v: Value) {
        self.extra.insert(key.into(), v);
    }

    pub fn to_json(&self) -> Value {
        json!({
            "property": self.property,
            "tier": self.tier,
            "seed": self.seed,
            "evaluations": self.evaluations,
            "distinct_nontrivial": self.distinct.len(),
            "rule": self.rule,
            "samples": self.samples,
            "violations": self.violations.iter().map(|v| json!({
                "signature": v.signature, "detail": v.detail, "replay": v.replay,
                "count": self.violation_counts.get(&v.signature).copied().unwrap_or(1),
            })).collect::<Vec<_>>(),
            "violation_counts": self.violation_counts,
            "inconclusive": self.inconclusive,
            "extra": self.extra,
            "assumptions": self.assumptions,
            "exhaustive": self.exhaustive,
            "wall_s": self.start.elapsed().as_secs_f64(),
        })
    }
}

impl Report {
    /// Merge a worker's sub-report into this one.
    pub fn merge(&mut self, other: Report) {
        self.evaluations += other.evaluations;
        self.distinct.extend(other.distinct);
        for s in other.samples {
            self.sample(s);
        }
        for (k, v) in other.violation_counts {
            *self.violation_counts.entry(k).or_default() += v;
        }
        for v in other.violations {
            let kept = self.violations.iter().filter(|x| x.signature == v.signature).count();
            if kept < 3 && self.violations.len() < 200 {
                self.violations.push(v);
            }
        }
        for (k, v) in other.inconclusive {
            *self.inconclusive.entry(k).or_default() += v;
        }
        for (k, v) in other.extra {
            match (self.extra.get(&k).and_then(|x| x.as_u64()), v.as_u64()) {
                (Some(a), Some(b)) => {
                    self.extra.insert(k, json!(a + b));
                }
                _ => {
                    // "max_*" keys keep the maximum, everything else the first value
                    let cur = self.extra.get(&k).and_then(|x| x.as_f64());
                    match (cur, v.as_f64()) {
                        (Some(a), Some(b)) if k.starts_with("max") => {
                            self.extra.insert(k, json!(a.max(b)));
                        }
                        _ => {
                            self.extra.entry(k).or_insert(v);
                        }
                    }
                }
            }
        }
        for a in other.assumptions {
            if !self.assumptions.contains(&a) {
                self.assumptions.push(a);
            }
        }
    }

    pub fn child(&self) -> Report {
        Report::new(&self.property, &self.tier, self.seed)
    }
}

/// Run `n` independent work items on `threads` worker threads; each item gets its own
/// sub-report, which are merged in item order (so the result is independent of scheduling).
pub fn par_run<F>(report: &mut Report, n: u64, f: F)
where
    F: Fn(u64, &mut Report) + Sync,
{
    let threads = std::env::var("VERIF_THREADS").ok().and_then(|s| s.parse().ok()).unwrap_or(16usize).max(1);
    let next = std::sync::atomic::AtomicU64::new(0);
    let results: std::sync::Mutex<Vec<(u64, Report)>> = std::sync::Mutex::new(Vec::new());
    std::thread::scope(|s| {
        for _ in 0..threads {
            s.spawn(|| {
                loop {
                    let i = next.fetch_add(1, std::sync::atomic::Ordering::SeqCst);
                    if i >= n {
                        break;
                    }
                    let mut sub = report.child();
                    f(i, &mut sub);
                    results.lock().unwrap().push((i, sub));
                }
            });
        }
    });
    let mut results = results.into_inner().unwrap();
    results.sort_by_key(|r| r.0);
    for (_, sub) in results {
        report.merge(sub);
    }
}
