//! C08 — mass-matrix adaptation whitens Gaussians exactly and never degenerates.

use std::sync::mpsc;
use std::time::Duration;

use nuts_rs::verif::{
    DiagAdaptStrategy, LowRankMassMatrix, LowRankMassMatrixStrategy, MassMatrixAdaptStrategy, Transformation, diag_new,
    diag_parts, new_draw_grad_collector, set_draw_grad_collector,
};
use nuts_rs::{DiagAdaptExpSettings, LowRankSettings, Math};
use serde_json::{Value as J, json};

use crate::Args;
use crate::chains::{Preset, SM, chain_on, start_point};
use crate::dens::{Logged, Target};
use crate::report::Report;
use crate::script::ScriptMath;
use crate::util::{Fnv, HRng, Mat, guard, mat_vec, norm, panic_site};

fn math_for(d: usize) -> SM {
    ScriptMath::new(Logged::new(Target::iso(d, 0.0), false))
}

/// Run `f` on a helper thread; None if it does not finish within `secs` (the thread is leaked).
fn with_timeout<T: Send + 'static>(secs: u64, f: impl FnOnce() -> T + Send + 'static) -> Option<T> {
    let (tx, rx) = mpsc::channel();
    std::thread::Builder::new()
        .stack_size(16 << 20)
        .spawn(move || {
            let _ = tx.send(f());
        })
        .ok()?;
    rx.recv_timeout(Duration::from_secs(secs)).ok()
}

fn gauss_grad_diag(mu: &[f64], sigma: &[f64], x: &[f64]) -> Vec<f64> {
    (0..x.len()).map(|i| -(x[i] - mu[i]) / (sigma[i] * sigma[i])).collect()
}

// ─────────────────────────── diagonal: exactness ────────────────────────────

fn diag_exact(report: &mut Report, seed: u64, idx: u64) {
    report.eval();
    let mut rng = HRng::new(seed).fork(idx);
    let d = 1 + rng.below(50) as usize;
    let cond = *rng.choose(&[1.0, 1e2, 1e4, 1e6]);
    let sigma: Vec<f64> = (0..d).map(|_| rng.log_range(1.0 / cond, cond)).collect();
    let mu: Vec<f64> = (0..d).map(|_| rng.range(-5.0, 5.0)).collect();
    let n = 3 + rng.below(40) as usize;
    // points need not be Gaussian draws: any placement
    let placement = idx % 5;
    let pts: Vec<Vec<f64>> = (0..n)
        .map(|k| {
            (0..d)
                .map(|i| match placement {
                    4 => mu[i] * 0.0 + sigma[i] * (1e6 + rng.normal()),
                    0 => mu[i] + sigma[i] * rng.normal(),
                    1 => mu[i] + 10.0 * sigma[i] + sigma[i] * rng.unif(),
                    2 => rng.range(-3.0, 3.0) * (1.0 + k as f64),
                    _ => mu[i] * 0.5 + sigma[i] * 1e-3 * rng.normal() + k as f64 * sigma[i],
                })
                .collect()
        })
        .collect();
    let replay = json!({"kind": "diag_exact", "seed": seed, "idx": idx});
    let r = guard(|| {
        let mut math = math_for(d);
        let mut strat = <DiagAdaptStrategy<SM> as MassMatrixAdaptStrategy<SM>>::new(&mut math, DiagAdaptExpSettings::default(), 100, 0);
        let mut mm = diag_new(&mut math, false);
        let mut coll = new_draw_grad_collector(&mut math);
        for p in &pts {
            let g = gauss_grad_diag(&mu, &sigma, p);
            set_draw_grad_collector(&mut math, &mut coll, p, &g, true);
            strat.update_estimators(&mut math, &coll);
        }
        let changed = strat.adapt(&mut math, &mut mm);
        (changed, diag_parts(&mut math, &mm))
    });
    let mut h = Fnv::new();
    h.str("diag_exact").u64(d as u64 / 8).u64(placement).u64(cond.log10() as u64);
    report.nontrivial(h.finish());
    match r {
        Err(p) => report.violation(format!("C08:diag:panic:{}", panic_site(&p)), p, replay),
        Ok((changed, parts)) => {
            if !changed {
                report.violation("C08:diag:no_update_with_three_draws", format!("{n} draws but adapt() did not change the transformation"), replay.clone());
                return;
            }
            // conditioning of var(x)/var(g): relative spread of the points
            for i in 0..d {
                let xs: Vec<f64> = pts.iter().map(|p| p[i]).collect();
                let m = crate::util::mean(&xs);
                let spread = xs.iter().map(|x| (x - m).abs()).fold(0.0, f64::max);
                let cancel = (m.abs() + mu[i].abs() + spread) / spread.max(1e-300);
                let tol = 1e-10 + 1e-12 * cancel;
                if tol > 1e-4 {
                    continue; // points too clustered relative to their offset: ill-conditioned by construction
                }
                report.count("diag_coordinates_checked", 1);
                if !((parts.stds[i] - sigma[i]).abs() <= tol * sigma[i]) {
                    report.violation("C08:diag:std_not_recovered", format!("coord {i} of {d}: std {} vs sigma {} ({n} points, placement {placement})", parts.stds[i], sigma[i]), replay.clone());
                    return;
                }
                // mean = mean(x) + std^2 * mean(grad): two terms of size |mean(x) - mu| cancel, so the relative error of
                // std^2 (~ eps * cancel) is amplified once more by cancel
                let tol_mean = 1e-10 + 1e-14 * cancel * cancel;
                if tol_mean <= 1e-2 && !((parts.mean[i] - mu[i]).abs() <= tol_mean * (sigma[i] + spread)) {
                    report.violation("C08:diag:mean_not_recovered", format!("coord {i} of {d}: mean {} vs mu {} ({n} points, placement {placement})", parts.mean[i], mu[i]), replay.clone());
                    return;
                }
                if !((parts.inv_stds[i] * parts.stds[i] - 1.0).abs() <= 1e-12) {
                    report.violation("C08:diag:inverse_scale_inconsistent", format!("coord {i}: std {} inv_std {}", parts.stds[i], parts.inv_stds[i]), replay.clone());
                    return;
                }
            }
            let want_logdet: f64 = parts.inv_stds.iter().map(|x| x.ln()).sum();
            if !((parts.logdet - want_logdet).abs() <= 1e-9 * (1.0 + want_logdet.abs())) {
                report.violation("C08:diag:logdet_inconsistent", format!("logdet {} vs sum ln inv_std {}", parts.logdet, want_logdet), replay.clone());
            }
            if idx % 997 == 0 && d <= 6 {
                report.sample(json!({"case": replay, "points": n, "placement": placement, "sigma": sigma, "estimated_std": parts.stds, "mu": mu, "estimated_mean": parts.mean}));
            }
        }
    }
}

// ─────────────────────────── low rank: exactness ────────────────────────────

fn dense_gauss(rng: &mut HRng, d: usize, cond: f64) -> (Vec<f64>, Mat, Mat) {
    match Target::correlated(rng, d, cond) {
        Target::Dense { mu, prec, cov } => (mu, prec, cov),
        _ => unreachable!(),
    }
}

fn lowrank_exact(report: &mut Report, seed: u64, idx: u64) {
    report.eval();
    let mut rng = HRng::new(seed).fork(0x10E + idx);
    let d = 1 + rng.below(20) as usize;
    let cond = *rng.choose(&[1.0, 10.0, 1e2, 1e4]);
    let (mut mu, prec, _cov) = dense_gauss(&mut rng, d, cond);
    // the Gaussian may sit far from the origin (|mean| / std up to 1e6)
    let offset = *rng.choose(&[1.0, 1.0, 1e3, 1e6]);
    for m in mu.iter_mut() {
        *m *= offset;
    }
    let n = d + 2 + rng.below(30) as usize;
    let pts: Vec<Vec<f64>> = (0..n).map(|_| (0..d).map(|i| mu[i] + 2.0 * rng.normal()).collect()).collect();
    let grad = |x: &[f64]| -> Vec<f64> {
        let dx: Vec<f64> = (0..d).map(|i| x[i] - mu[i]).collect();
        mat_vec(&prec, &dx).iter().map(|v| -v).collect()
    };
    let tests: Vec<Vec<f64>> = (0..5).map(|_| (0..d).map(|i| mu[i] + 3.0 * rng.normal()).collect()).collect();
    let replay = json!({"kind": "lowrank_exact", "seed": seed, "idx": idx});
    let settings = LowRankSettings { store_mass_matrix: false, gamma: 1e-12, eigval_cutoff: 1.0 };
    let pts2 = pts.clone();
    let tests2 = tests.clone();
    let mu2 = mu.clone();
    let prec2 = prec.clone();
    let r = with_timeout(60, move || {
        guard(move || {
            let grad = |x: &[f64]| -> Vec<f64> {
                let dx: Vec<f64> = (0..d).map(|i| x[i] - mu2[i]).collect();
                mat_vec(&prec2, &dx).iter().map(|v| -v).collect()
            };
            let mut math = math_for(d);
            let mut strat = LowRankMassMatrixStrategy::new(d, settings);
            let mut mm = LowRankMassMatrix::new(&mut math, settings);
            let mut coll = new_draw_grad_collector(&mut math);
            for p in &pts2 {
                set_draw_grad_collector(&mut math, &mut coll, p, &grad(p), true);
                MassMatrixAdaptStrategy::<SM>::update_estimators(&mut strat, &mut math, &coll);
            }
            let changed = MassMatrixAdaptStrategy::<SM>::adapt(&strat, &mut math, &mut mm);
            let parts = mm.verif_parts(&mut math);
            // whitened gradient = - whitened position at fresh test points
            let mut worst: f64 = 0.0;
            for t in &tests2 {
                let g = grad(t);
                let mut x = math.new_array();
                math.read_from_slice(&mut x, t);
                let mut gx = math.new_array();
                math.read_from_slice(&mut gx, &g);
                let mut y = math.new_array();
                let mut gy = math.new_array();
                let _ = mm.inv_transform_normalize(&mut math, &x, &gx, &mut y, &mut gy);
                let (yv, gyv) = (math.box_array(&y).into_vec(), math.box_array(&gy).into_vec());
                let num: f64 = yv.iter().zip(&gyv).map(|(a, b)| (a + b) * (a + b)).sum::<f64>().sqrt();
                worst = worst.max(num / norm(&yv).max(1e-300));
            }
            (changed, parts, worst)
        })
    });
    let _ = grad;
    let mut h = Fnv::new();
    h.str("lowrank_exact").u64(d as u64 / 4).u64(cond.log10() as u64).u64((n - d).min(8) as u64).u64(offset.log10() as u64);
    report.nontrivial(h.finish());
    match r {
        None => report.violation("C08:lowrank:hang", format!("estimator did not return within 60 s (d {d}, {n} points)"), replay),
        Some(Err(p)) => report.violation(format!("C08:lowrank:panic:{}", panic_site(&p)), p, replay),
        Some(Ok((changed, parts, worst))) => {
            report.count("lowrank_windows_checked", 1);
            if !changed || parts.id < 0 {
                report.violation("C08:lowrank:no_update_with_enough_draws", format!("{n} draws in dimension {d}, transformation unchanged"), replay.clone());
                return;
            }
            // conditioning of the window itself: n points in d dimensions span the space only barely when n is close
            // to d; the estimate inherits the condition number of the centred point cloud
            let cloud_cond = {
                let m: Vec<f64> = (0..d).map(|i| pts.iter().map(|p| p[i]).sum::<f64>() / n as f64).collect();
                let mut c = crate::util::mat_zeros(d, d);
                for p in &pts {
                    for i in 0..d {
                        for j in 0..d {
                            c[i][j] += (p[i] - m[i]) * (p[j] - m[j]) / (n as f64 - 1.0);
                        }
                    }
                }
                let power = |a: &Mat| -> f64 {
                    let mut v = vec![1.0; d];
                    let mut lam = 0.0;
                    for _ in 0..200 {
                        let w = mat_vec(a, &v);
                        lam = norm(&w);
                        if !(lam > 0.0) {
                            break;
                        }
                        v = w.iter().map(|x| x / lam).collect();
                    }
                    lam
                };
                match crate::util::lu_inverse(&c) {
                    Some((_, _, inv)) => power(&c) * power(&inv),
                    None => f64::INFINITY,
                }
            };
            // (measured on the unchanged tree: <= 3e-11 * cond for well spread windows, growing with the cloud's
            // condition number)
            let tol = 1e-8 * cond.max(1.0) * (1.0 + cloud_cond / 100.0);
            if std::env::var("VERIF_TIMING").is_ok() {
                eprintln!("lowrank_exact d {d} n {n} cond {cond:e} offset {offset:e} cloud {cloud_cond:e} worst {worst:e}");
            }
            // (the two condition numbers multiply: a window that barely spans the space of a badly conditioned Gaussian
            // leaves no digits for an exactness claim)
            if !cloud_cond.is_finite() || cloud_cond > 1e8 || cloud_cond * cond.max(1.0) > 1e8 {
                report.inconclusive("window too ill-conditioned for an exactness check");
                return;
            }
            if !(worst <= tol) {
                report.violation(
                    "C08:lowrank:gaussian_not_whitened",
                    format!("|y + grad_y| / |y| = {worst:e} at fresh points (d {d}, {n} points, cond {cond}, |mean| scale {offset:e}, tol {tol:e})"),
                    replay,
                );
            }
        }
    }
}

/// Low-rank estimator with its DEFAULT settings on a Gaussian whose structure fits rank 0 (independent coordinates,
/// possibly far from the origin): the diagonal part alone must whiten it and report the true scales.
fn lowrank_rank0(report: &mut Report, seed: u64, idx: u64) {
    report.eval();
    let mut rng = HRng::new(seed).fork(0x2A0 + idx);
    let d = 1 + rng.below(12) as usize;
    let sigma: Vec<f64> = (0..d).map(|_| rng.log_range(1e-3, 1e3)).collect();
    let offset = *rng.choose(&[0.0, 1.0, 1e3, 1e6, 1e8]);
    let mu: Vec<f64> = (0..d).map(|i| sigma[i] * offset * if rng.bool(0.5) { 1.0 } else { -1.0 } * rng.range(0.5, 2.0)).collect();
    // one case in three has a history: the matrix was first adapted to a strongly correlated Gaussian (a low-rank
    // correction is installed), then the window below arrives; nothing of the old correction may survive
    let history = idx % 3 == 2 && d >= 2;
    let (h_mu, h_prec, _) = dense_gauss(&mut rng, d, 1e4);
    let h_pts: Vec<Vec<f64>> = (0..(d + 10)).map(|_| (0..d).map(|i| h_mu[i] + 2.0 * rng.normal()).collect()).collect();
    let n = d + 3 + rng.below(40) as usize;
    let pts: Vec<Vec<f64>> = (0..n).map(|_| (0..d).map(|i| mu[i] + sigma[i] * rng.normal()).collect()).collect();
    let tests: Vec<Vec<f64>> = (0..4).map(|_| (0..d).map(|i| mu[i] + 2.0 * sigma[i] * rng.normal()).collect()).collect();
    let replay = json!({"kind": "lowrank_rank0", "seed": seed, "idx": idx});
    let settings = LowRankSettings::default();
    let (mu2, sigma2) = (mu.clone(), sigma.clone());
    let r = with_timeout(60, move || {
        guard(move || {
            let mut math = math_for(d);
            let mut strat = LowRankMassMatrixStrategy::new(d, settings);
            let mut mm = LowRankMassMatrix::new(&mut math, settings);
            let mut coll = new_draw_grad_collector(&mut math);
            let mut rank_before = 0usize;
            if history {
                let mut first = LowRankMassMatrixStrategy::new(d, settings);
                for p in &h_pts {
                    let dx: Vec<f64> = (0..d).map(|i| p[i] - h_mu[i]).collect();
                    let g: Vec<f64> = mat_vec(&h_prec, &dx).iter().map(|v| -v).collect();
                    set_draw_grad_collector(&mut math, &mut coll, p, &g, true);
                    MassMatrixAdaptStrategy::<SM>::update_estimators(&mut first, &mut math, &coll);
                }
                MassMatrixAdaptStrategy::<SM>::adapt(&first, &mut math, &mut mm);
                rank_before = mm.verif_parts(&mut math).inner.map(|i| i.0.len()).unwrap_or(0);
            }
            for p in &pts {
                set_draw_grad_collector(&mut math, &mut coll, p, &gauss_grad_diag(&mu2, &sigma2, p), true);
                MassMatrixAdaptStrategy::<SM>::update_estimators(&mut strat, &mut math, &coll);
            }
            let id_before = mm.verif_parts(&mut math).id;
            MassMatrixAdaptStrategy::<SM>::adapt(&strat, &mut math, &mut mm);
            let parts = mm.verif_parts(&mut math);
            let rejected = parts.id == id_before;
            let mut worst: f64 = 0.0;
            for t in &tests {
                let g = gauss_grad_diag(&mu2, &sigma2, t);
                let mut x = math.new_array();
                math.read_from_slice(&mut x, t);
                let mut gx = math.new_array();
                math.read_from_slice(&mut gx, &g);
                let mut y = math.new_array();
                let mut gy = math.new_array();
                let _ = mm.inv_transform_normalize(&mut math, &x, &gx, &mut y, &mut gy);
                let (yv, gyv) = (math.box_array(&y).into_vec(), math.box_array(&gy).into_vec());
                let num: f64 = yv.iter().zip(&gyv).map(|(a, b)| (a + b) * (a + b)).sum::<f64>().sqrt();
                worst = worst.max(num / norm(&yv).max(1e-300));
            }
            (parts, worst, rejected, rank_before > 0)
        })
    });
    let mut h = Fnv::new();
    h.str("lowrank_rank0").u64(d as u64 / 3).u64(if offset > 0.0 { offset.log10() as u64 + 1 } else { 0 }).u64(history as u64);
    report.nontrivial(h.finish());
    match r {
        None => report.violation("C08:lowrank:hang", format!("estimator did not return within 60 s (d {d}, {n} points)"), replay),
        Some(Err(p)) => report.violation(format!("C08:lowrank:panic:{}", panic_site(&p)), p, replay),
        Some(Ok((parts, worst, rejected, had_correction))) => {
            report.count("lowrank_rank0_windows_checked", 1);
            if had_correction {
                report.count("lowrank_windows_after_an_installed_correction", 1);
            }
            // consistency of the log-determinant with the installed scales: -(sum ln std + sum ln sqrt(eig))
            let want_logdet = -parts.stds.iter().map(|v| v.ln()).sum::<f64>() - parts.inner.as_ref().map(|i| i.0.iter().map(|v| v.ln()).sum::<f64>()).unwrap_or(0.0);
            if !rejected && !((parts.logdet - want_logdet).abs() <= 1e-8 * (1.0 + want_logdet.abs())) {
                report.violation("C08:lowrank:logdet_inconsistent", format!("logdet {} vs -(sum ln std + sum ln sqrt eig) = {want_logdet} (history {had_correction})", parts.logdet), replay.clone());
                return;
            }
            if rejected {
                report.violation("C08:lowrank:no_update_with_enough_draws", format!("{n} Gaussian draws in dimension {d} (|mean|/std {offset:e}): the estimate was rejected"), replay.clone());
                return;
            }
            // a mean of size offset*sigma limits the accuracy of a centred value to offset * eps
            let tol = 1e-9 + offset * 1e-13;
            for i in 0..d {
                if !((parts.stds[i] - sigma[i]).abs() <= tol * sigma[i]) {
                    report.violation("C08:lowrank:std_not_recovered", format!("coord {i} of {d}: std {} vs sigma {} (|mean|/std {offset:e}, {n} points)", parts.stds[i], sigma[i]), replay.clone());
                    return;
                }
            }
            if !(worst <= 1e-7 + offset * 1e-12) {
                report.violation("C08:lowrank:gaussian_not_whitened", format!("independent Gaussian, default settings: |y + grad_y| / |y| = {worst:e} (d {d}, |mean|/std {offset:e})"), replay);
            }
        }
    }
}

// ─────────────────────────── robustness ─────────────────────────────────────

fn hostile(rng: &mut HRng, class: u64, n: usize, d: usize, sane: &[Vec<f64>]) -> Vec<Vec<f64>> {
    let mut w: Vec<Vec<f64>> = sane.to_vec();
    match class % 12 {
        0 => {} // sane
        1 => {
            // constant column(s)
            let c = rng.below(d as u64) as usize;
            let v = rng.range(-2.0, 2.0);
            for r in w.iter_mut() {
                r[c] = v
            }
        }
        2 => {
            for r in w.iter_mut() {
                for x in r.iter_mut() {
                    *x = 0.0
                }
            }
        }
        3 => {
            let c = rng.below(d as u64) as usize;
            for r in w.iter_mut() {
                r[c] *= 1e300
            }
        }
        4 => {
            let c = rng.below(d as u64) as usize;
            for r in w.iter_mut() {
                r[c] *= 1e-300
            }
        }
        5 => {
            let (i, c) = (rng.below(n as u64) as usize, rng.below(d as u64) as usize);
            w[i][c] = f64::NAN;
        }
        6 => {
            let (i, c) = (rng.below(n as u64) as usize, rng.below(d as u64) as usize);
            w[i][c] = if rng.bool(0.5) { f64::INFINITY } else { f64::NEG_INFINITY };
        }
        7 => {
            // all rows identical
            let r0 = w[0].clone();
            for r in w.iter_mut() {
                *r = r0.clone()
            }
        }
        8 => {
            // whole column NaN
            let c = rng.below(d as u64) as usize;
            for r in w.iter_mut() {
                r[c] = f64::NAN
            }
        }
        10 | 11 => {
            // one column far outside the clamp of the scale estimate but far from overflow
            let c = rng.below(d as u64) as usize;
            let f = if class % 12 == 10 { 10f64.powf(rng.range(11.0, 40.0)) } else { 10f64.powf(rng.range(-40.0, -11.0)) };
            for r in w.iter_mut() {
                r[c] *= f
            }
        }
        _ => {
            // wild magnitudes everywhere
            for r in w.iter_mut() {
                for x in r.iter_mut() {
                    *x *= 10f64.powf(rng.range(-150.0, 150.0))
                }
            }
        }
    }
    w
}

fn class_name(c: u64) -> &'static str {
    ["sane", "constant_column", "all_zero", "huge_column", "tiny_column", "one_nan", "one_inf", "identical_rows", "nan_column", "wild_magnitudes", "large_column", "small_column"][(c % 12) as usize]
}

fn robust_case(report: &mut Report, seed: u64, idx: u64) {
    report.eval();
    let mut rng = HRng::new(seed).fork(0x20B + idx);
    let lowrank = idx % 2 == 1;
    let d = 1 + rng.below(if lowrank { 12 } else { 50 }) as usize;
    let n = 3 + rng.below(30) as usize;
    let (cd, cg) = ((idx / 2) % 12, (idx / 24) % 12);
    // diagonal estimator: scales from the draw / gradient variance ratio (default) or from the draw variance alone
    let draw_only = !lowrank && (idx / 288) % 2 == 1;
    let sigma: Vec<f64> = (0..d).map(|_| rng.log_range(0.1, 10.0)).collect();
    let mu: Vec<f64> = (0..d).map(|_| rng.range(-2.0, 2.0)).collect();
    let sane_x: Vec<Vec<f64>> = (0..n).map(|_| (0..d).map(|i| mu[i] + sigma[i] * rng.normal()).collect()).collect();
    let sane_g: Vec<Vec<f64>> = sane_x.iter().map(|x| gauss_grad_diag(&mu, &sigma, x)).collect();
    let xs = hostile(&mut rng, cd, n, d, &sane_x);
    let gs = hostile(&mut rng, cg, n, d, &sane_g);
    let which = if lowrank { "lowrank" } else if draw_only { "diag_draw_only" } else { "diag" };
    let replay = json!({"kind": "robust", "seed": seed, "idx": idx});
    let mut h = Fnv::new();
    h.str("robust").str(which).u64(cd).u64(cg);
    report.nontrivial(h.finish());
    let (sx, sg) = (sane_x.clone(), sane_g.clone());
    let (xs_in, gs_in) = (xs.clone(), gs.clone());
    // first a sane window (gives a valid "previous value"), then the hostile one
    let r = with_timeout(60, move || {
        guard(move || {
            let mut math = math_for(d);
            let mut out: Vec<(Vec<f64>, Vec<f64>, f64, Vec<f64>, Vec<f64>)> = vec![];
            if lowrank {
                let settings = LowRankSettings::default();
                let mut mm = LowRankMassMatrix::new(&mut math, settings);
                let mut coll = new_draw_grad_collector(&mut math);
                for (windows_x, windows_g) in [(&sx, &sg), (&xs_in, &gs_in)] {
                    let mut strat = LowRankMassMatrixStrategy::new(d, settings);
                    for (p, g) in windows_x.iter().zip(windows_g.iter()) {
                        set_draw_grad_collector(&mut math, &mut coll, p, g, true);
                        MassMatrixAdaptStrategy::<SM>::update_estimators(&mut strat, &mut math, &coll);
                    }
                    MassMatrixAdaptStrategy::<SM>::adapt(&strat, &mut math, &mut mm);
                    let p = mm.verif_parts(&mut math);
                    let (es, ei) = p.inner.map(|i| (i.0, i.1)).unwrap_or_default();
                    out.push((p.stds, p.inv_stds, p.logdet, es, ei));
                }
            } else {
                let mut mm = diag_new(&mut math, false);
                let mut coll = new_draw_grad_collector(&mut math);
                let dsettings = DiagAdaptExpSettings { use_grad_based_estimate: !draw_only, ..Default::default() };
                for (windows_x, windows_g) in [(&sx, &sg), (&xs_in, &gs_in)] {
                    let mut strat = <DiagAdaptStrategy<SM> as MassMatrixAdaptStrategy<SM>>::new(&mut math, dsettings, 100, 0);
                    for (p, g) in windows_x.iter().zip(windows_g.iter()) {
                        set_draw_grad_collector(&mut math, &mut coll, p, g, true);
                        strat.update_estimators(&mut math, &coll);
                    }
                    strat.adapt(&mut math, &mut mm);
                    let p = diag_parts(&mut math, &mm);
                    out.push((p.stds, p.inv_stds, p.logdet, vec![], vec![]));
                }
            }
            out
        })
    });
    let tag = format!("{}_draws+{}_grads", class_name(cd), class_name(cg));
    match r {
        None => report.violation(format!("C08:{which}:hang"), format!("estimator did not return within 60 s on window {tag} (d {d}, n {n})"), replay),
        Some(Err(p)) => report.violation(format!("C08:{which}:panic:{}", panic_site(&p)), format!("window {tag}: {p}"), replay),
        Some(Ok(out)) => {
            report.count("hostile_windows_adapted", 1);
            let (before, after) = (&out[0], &out[1]);
            if idx % 499 == 0 {
                report.sample(json!({"case": replay, "window": tag, "d": d, "n": n, "std_before": before.0, "std_after": after.0, "inv_std_after": after.1, "logdet_after": after.2}));
            }
            let ok = |v: &f64| v.is_finite() && *v > 0.0;
            for (name, vals) in [("std", &after.0), ("inv_std", &after.1), ("eig_sqrt", &after.3), ("eig_sqrt_inv", &after.4)] {
                if let Some(i) = vals.iter().position(|v| !ok(v)) {
                    report.violation(
                        format!("C08:{which}:scale_not_positive_finite:{name}"),
                        format!("window {tag} (d {d}, n {n}): {name}[{i}] = {:e} after adapt (before: {:?})", vals[i], before.0.get(i)),
                        replay.clone(),
                    );
                    return;
                }
            }
            if !after.2.is_finite() {
                report.violation(format!("C08:{which}:logdet_not_finite"), format!("window {tag}: logdet {}", after.2), replay.clone());
                return;
            }
            // whatever the window, the scale and its inverse describe one bijection (also where the estimate is clamped)
            for i in 0..d {
                if !((after.0[i] * after.1[i] - 1.0).abs() <= 1e-9) {
                    report.violation(
                        format!("C08:{which}:inverse_scale_inconsistent"),
                        format!("window {tag} (d {d}, n {n}): std[{i}] = {:e} but inv_std[{i}] = {:e} (product {:e})", after.0[i], after.1[i], after.0[i] * after.1[i]),
                        replay.clone(),
                    );
                    return;
                }
                if !lowrank && (after.0[i] <= 1.0000001e-10 || after.0[i] >= 0.9999999e10) {
                    report.count("clamped_scales_observed", 1);
                }
            }
            for (i, (a, b)) in after.3.iter().zip(after.4.iter()).enumerate() {
                if !((a * b - 1.0).abs() <= 1e-9) {
                    report.violation(format!("C08:{which}:inverse_scale_inconsistent"), format!("window {tag}: eigenvalue scale {i}: {a:e} x {b:e} != 1"), replay.clone());
                    return;
                }
            }
            if !lowrank {
                let want: f64 = after.1.iter().map(|x| x.ln()).sum();
                if !((after.2 - want).abs() <= 1e-9 * (1.0 + want.abs())) {
                    report.violation(&format!("C08:{which}:logdet_inconsistent"), format!("window {tag}: logdet {} vs sum ln inv_std {want}", after.2), replay.clone());
                    return;
                }
            }
            // an invalid estimate keeps the previous value: diag per coordinate, low rank as a whole
            if !lowrank {
                for i in 0..d {
                    let col_x: Vec<f64> = xs.iter().map(|r| r[i]).collect();
                    let col_g: Vec<f64> = gs.iter().map(|r| r[i]).collect();
                    // no valid estimate exists when an input the estimate depends on is non-finite or has exactly zero
                    // variance: the previous value must stay, bit for bit
                    let bad = |col: &[f64]| col.iter().any(|v| !v.is_finite()) || col.iter().all(|v| *v == col[0]);
                    let must_keep = bad(&col_x) || (!draw_only && bad(&col_g));
                    if must_keep && after.0[i].to_bits() != before.0[i].to_bits() {
                        report.violation(
                            format!("C08:{which}:invalid_estimate_replaced_previous_value"),
                            format!("window {tag}: coordinate {i} has non-finite or constant input but std changed {:e} -> {:e}", before.0[i], after.0[i]),
                            replay.clone(),
                        );
                        return;
                    }
                    if must_keep {
                        report.count("invalid_coordinates_kept_previous_value", 1);
                    }
                }
            }
        }
    }
}

// ─────────────────────────── end to end ─────────────────────────────────────

fn end_to_end(report: &mut Report, seed: u64, idx: u64) {
    report.eval();
    let mut rng = HRng::new(seed).fork(0xE2E + idx);
    let lowrank = idx % 2 == 1;
    let d = *rng.choose(&[1usize, 2, 5, 10]);
    let cond: f64 = *rng.choose(&[1.0, 100.0, 1e4]);
    let target = if lowrank { Target::correlated(&mut rng, d, cond.min(100.0)) } else { Target::scaled(&mut rng, d, cond) };
    let diag_sigma: Option<Vec<f64>> = match &target {
        Target::Diag { sigma, .. } => Some(sigma.clone()),
        _ => None,
    };
    let mut last_id = i64::MIN;
    let preset = if lowrank { Preset::LowRankNuts } else { Preset::DiagNuts };
    let start = start_point(&target, &mut rng);
    let mut patches: Vec<(&str, J)> = vec![("num_tune", json!(300)), ("num_draws", json!(20)), ("store_transformed", json!(true))];
    if lowrank {
        patches.push(("adapt_options.mass_matrix_options.eigval_cutoff", json!(1.0)));
        patches.push(("adapt_options.mass_matrix_options.gamma", json!(1e-12)));
        patches.push(("adapt_options.mass_matrix_update_freq", json!(1)));
    }
    let replay = json!({"kind": "end_to_end", "seed": seed, "idx": idx});
    let Ok((mut chain, _)) = chain_on(preset, &patches, Logged::new(target, false), rng.next_u64()) else { return };
    if chain.set_position(&start).is_err() {
        report.inconclusive("set_position failed");
        return;
    }
    let which = if lowrank { "lowrank" } else { "diag" };
    let mut h = Fnv::new();
    h.str("e2e").str(which).u64(d as u64).u64(cond.log10() as u64);
    report.nontrivial(h.finish());
    let mut worst_late: f64 = 0.0;
    for dd in 0..320u64 {
        let o = match guard(|| chain.draw()) {
            Ok(Ok(o)) => o,
            Ok(Err(e)) => {
                report.violation(format!("C08:{which}:end_to_end_draw_error"), format!("draw {dd}: {e}"), replay.clone());
                return;
            }
            Err(p) => {
                report.violation(format!("C08:{which}:end_to_end_panic:{}", panic_site(&p)), format!("draw {dd}: {p}"), replay.clone());
                return;
            }
        };
        // diagonal estimator on a diagonal Gaussian: every estimate installed from a window of at least three points is
        // exact (draws and gradients of any set of points determine sigma), whichever window it is - the first one, the
        // one after a switch, the last one
        if let (false, Some(sc), Some(w), Some(sig)) = (lowrank, chain.scales(), chain.window(), diag_sigma.as_ref()) {
            if sc.id != last_id && w.foreground_count >= 3 && dd >= 1 {
                for i in 0..d {
                    if !((sc.stds[i] - sig[i]).abs() <= 1e-7 * sig[i]) {
                        report.violation(
                            "C08:diag:window_estimate_not_exact_in_chain",
                            format!("draw {dd}: coordinate {i}: installed std {:e}, sigma {:e} (window of {} points, background {})", sc.stds[i], sig[i], w.foreground_count, w.background_count),
                            replay.clone(),
                        );
                        return;
                    }
                }
                report.count("in_chain_window_estimates_checked", 1);
            }
            last_id = sc.id;
        }
        // scales of the transformation in use stay finite and positive throughout
        if let Some(s) = chain.scales() {
            if s.stds.iter().chain(s.inv_stds.iter()).chain(s.eig_sqrt.iter()).chain(s.eig_sqrt_inv.iter()).any(|v| !(v.is_finite() && *v > 0.0)) || !s.logdet.is_finite() {
                report.violation(format!("C08:{which}:scale_not_positive_finite:in_chain"), format!("draw {dd}: scales {:?} logdet {}", s.stds, s.logdet), replay.clone());
                return;
            }
        }
        if dd >= 150 {
            let (Some(y), Some(g)) = (o.vec("transformed_position"), o.vec("transformed_gradient")) else { continue };
            let num: f64 = y.iter().zip(g).map(|(a, b)| (a + b) * (a + b)).sum::<f64>().sqrt();
            let rel = num / norm(y).max(1e-3);
            worst_late = worst_late.max(rel);
            // the fisher_distance statistic is the same quantity
            if let Some(fd) = o.f64("fisher_distance") {
                if !((fd - num * num).abs() <= 1e-9 * (1.0 + num * num)) {
                    report.violation(format!("C08:{which}:fisher_distance_statistic"), format!("draw {dd}: stat {fd} vs |y+g|^2 {}", num * num), replay.clone());
                    return;
                }
            }
        }
    }
    report.count("end_to_end_chains", 1);
    let tol = if lowrank { 1e-5 * cond } else { 1e-9 * cond };
    if !(worst_late <= tol) {
        report.violation(
            format!("C08:{which}:adapted_chain_not_whitened"),
            format!("d {d} cond {cond}: |y + grad_y| / |y| = {worst_late:e} after 150 warmup draws (tol {tol:e})"),
            replay,
        );
    }
}

pub fn run(args: &Args, report: &mut Report) {
    report.rule = "estimators driven directly (hook): diagonal exactness on diagonal Gaussians (d 1..50, cond up to 1e12 in variance, any placement of \
        3..42 points), low-rank exactness on dense Gaussians (d 1..20, more points than dimensions, full rank retained), hostile windows \
        (12 classes for draws x 12 for gradients: constant / zero / 1e+-300 / NaN / inf / identical rows / wild magnitudes / one column beyond the clamp of the scale estimate) for both estimators, \
        each after a sane window; end to end: adapted chains with store_transformed on Gaussians; distinct = (component, dim bucket, classes)".into();
    report.assumptions.push("low-rank exactness is checked with eigval_cutoff = 1 and gamma = 1e-12 (every direction retained, negligible regularisation): with the default cutoff the estimator deliberately ignores eigenvalues in [1/2, 2]".into());
    report.assumptions.push("a hang is declared after 60 s on a helper thread".into());
    let seed = args.seed ^ 0xC08;
    if let Some(r) = &args.replay {
        let (s, i) = (r["seed"].as_u64().unwrap(), r["idx"].as_u64().unwrap());
        match r["kind"].as_str().unwrap() {
            "diag_exact" => diag_exact(report, s, i),
            "lowrank_exact" => lowrank_exact(report, s, i),
            "lowrank_rank0" => lowrank_rank0(report, s, i),
            "robust" => robust_case(report, s, i),
            _ => end_to_end(report, s, i),
        }
        return;
    }
    let n1 = report.size(8000, 1_000_000);
    let n2 = report.size(2400, 300_000);
    let n3 = report.size(8000, 1_000_000);
    let n4 = report.size(96, 6000);
    let n5 = report.size(2400, 300_000);
    crate::report::par_run(report, n5, |i, rep| lowrank_rank0(rep, seed, i));
    crate::report::par_run(report, n1 + n2 + n3 + n4, |i, rep| {
        if i < n1 {
            diag_exact(rep, seed, i)
        } else if i < n1 + n2 {
            lowrank_exact(rep, seed, i - n1)
        } else if i < n1 + n2 + n3 {
            robust_case(rep, seed, i - n1 - n2)
        } else {
            end_to_end(rep, seed, i - n1 - n2 - n3)
        }
    });
}
