//! C17 — vector kernels agree with scalar arithmetic for every length and value.
//!
//! Differential monitor: every kernel of `math::util` (called directly through the hook with
//! `pulp::Arch::Scalar` and the detected arch, on sub-slices at offsets 0..7 of a larger buffer
//! with canaries) and every vector method of `CpuMath` (public `Math` trait) is compared with a
//! plain element-by-element reference evaluated in double-double arithmetic.

use nuts_rs::verif::kernels as k;
use nuts_rs::{CpuMath, Math};
use serde_json::json;

use crate::dens::{Logged, Target};
use crate::report::Report;
use crate::util::{Fnv, HRng};
use crate::Args;

const SENTINEL: u64 = 0x7ff8_dead_beef_0001;
const CANARY: u64 = 0x7ff8_c0de_c0de_0002;

fn sentinel() -> f64 {
    f64::from_bits(SENTINEL)
}

#[derive(Clone, Copy, Debug, PartialEq, Eq)]
enum Class {
    Uniform,
    FullRange,
    SignedZeros,
    Subnormal,
    WithNan,
    WithInf,
    Cancelling,
    Ones,
}

const CLASSES: [Class; 8] = [
    Class::Uniform,
    Class::FullRange,
    Class::SignedZeros,
    Class::Subnormal,
    Class::WithNan,
    Class::WithInf,
    Class::Cancelling,
    Class::Ones,
];

fn gen_vec(rng: &mut HRng, n: usize, class: Class, slot: usize) -> Vec<f64> {
    let mut v: Vec<f64> = match class {
        Class::Uniform => (0..n).map(|_| rng.range(-2.0, 2.0)).collect(),
        Class::FullRange => (0..n)
            .map(|_| {
                let m = rng.log_range(1e-140, 1e140);
                if rng.bool(0.5) { m } else { -m }
            })
            .collect(),
        Class::SignedZeros => (0..n)
            .map(|_| match rng.below(4) {
                0 => 0.0,
                1 => -0.0,
                _ => rng.range(-1.0, 1.0),
            })
            .collect(),
        Class::Subnormal => (0..n)
            .map(|_| {
                let bits = rng.below(1 << 40) + 1;
                let x = f64::from_bits(bits);
                match rng.below(3) {
                    0 => x,
                    1 => -x,
                    _ => rng.range(-1.0, 1.0),
                }
            })
            .collect(),
        Class::WithNan | Class::WithInf => (0..n).map(|_| rng.range(-2.0, 2.0)).collect(),
        Class::Cancelling => {
            let mut v: Vec<f64> = Vec::with_capacity(n);
            while v.len() < n {
                let x = rng.log_range(1e-3, 1e12) * if rng.bool(0.5) { 1.0 } else { -1.0 };
                v.push(x);
                if v.len() < n {
                    v.push(-x * (1.0 + rng.range(-1e-9, 1e-9)));
                }
            }
            v
        }
        Class::Ones => vec![1.0; n],
    };
    if n > 0 {
        match class {
            // place the special value at a position that depends on the slot so that every
            // argument and every lane position gets it over the run
            Class::WithNan => {
                let i = (rng.below(n as u64) as usize + slot) % n;
                v[i] = f64::NAN;
            }
            Class::WithInf => {
                let i = (rng.below(n as u64) as usize + slot) % n;
                v[i] = if rng.bool(0.5) { f64::INFINITY } else { f64::NEG_INFINITY };
                if n > 1 && rng.bool(0.3) {
                    let j = (i + 1 + rng.below(n as u64 - 1) as usize) % n;
                    v[j] = if rng.bool(0.5) { f64::INFINITY } else { f64::NEG_INFINITY };
                }
            }
            _ => {}
        }
    }
    v
}

fn gen_scalar(rng: &mut HRng, class: Class) -> f64 {
    match class {
        Class::FullRange => rng.log_range(1e-100, 1e100) * if rng.bool(0.5) { 1.0 } else { -1.0 },
        Class::SignedZeros => *rng.choose(&[0.0, -0.0, 1.0, -1.0]),
        Class::Subnormal => f64::from_bits(rng.below(1 << 30) + 1),
        Class::WithNan => {
            if rng.bool(0.2) { f64::NAN } else { rng.range(-2.0, 2.0) }
        }
        Class::WithInf => {
            if rng.bool(0.2) { f64::INFINITY } else { rng.range(-2.0, 2.0) }
        }
        _ => rng.range(-2.0, 2.0),
    }
}

// ── double-double helpers ───────────────────────────────────────────────────

#[derive(Clone, Copy, Debug)]
struct DD(f64, f64);

fn two_sum(a: f64, b: f64) -> (f64, f64) {
    let s = a + b;
    let bb = s - a;
    let e = (a - (s - bb)) + (b - bb);
    (s, e)
}
fn two_prod(a: f64, b: f64) -> (f64, f64) {
    let p = a * b;
    let e = a.mul_add(b, -p);
    (p, e)
}
impl DD {
    fn add(self, x: f64) -> DD {
        let (s, e) = two_sum(self.0, x);
        let (s2, e2) = two_sum(s, e + self.1);
        DD(s2, e2)
    }
    fn add_dd(self, o: DD) -> DD {
        self.add(o.0).add(o.1)
    }
    fn val(self) -> f64 {
        self.0 + self.1
    }
}
fn dd_prod(a: f64, b: f64) -> DD {
    let (p, e) = two_prod(a, b);
    DD(p, e)
}

// ── comparison helpers ──────────────────────────────────────────────────────

fn same_class(a: f64, b: f64) -> bool {
    if a.is_nan() || b.is_nan() {
        return a.is_nan() && b.is_nan();
    }
    if a.is_infinite() || b.is_infinite() {
        return a == b;
    }
    true
}

/// `res` must equal one of the candidate evaluations up to `ulps`, with identical NaN/inf class.
fn accept(res: f64, candidates: &[f64], ulps: u64) -> bool {
    for &c in candidates {
        if c.is_nan() {
            if res.is_nan() {
                return true;
            }
            continue;
        }
        if c == res {
            return true;
        }
        if c.is_finite() && res.is_finite() && crate::util::ulp_diff(c, res) <= ulps {
            return true;
        }
    }
    false
}

struct Ctx<'a> {
    report: &'a mut Report,
    op: &'static str,
    arch: &'static str,
    n: usize,
    offset: usize,
    class: Class,
    seed: u64,
    case: u64,
}

impl<'a> Ctx<'a> {
    fn fail(&mut self, what: &str, idx: usize, got: f64, want: String) {
        let sig = format!("C17:{}:{}:{}", self.op, self.arch, what);
        let detail = format!(
            "op={} arch={} n={} offset={} class={:?} index={} got={:e} ({:#x}) want={}",
            self.op,
            self.arch,
            self.n,
            self.offset,
            self.class,
            idx,
            got,
            got.to_bits(),
            want
        );
        let replay = json!({"seed": self.seed, "case": self.case, "op": self.op, "arch": self.arch,
            "n": self.n, "offset": self.offset, "class": format!("{:?}", self.class)});
        self.report.violation(sig, detail, replay);
    }
}

/// A buffer holding a vector of length n at `offset` within canary padding.
struct Buf {
    data: Vec<f64>,
    offset: usize,
    n: usize,
}
impl Buf {
    fn new(v: &[f64], offset: usize) -> Buf {
        let mut data = vec![f64::from_bits(CANARY); v.len() + offset + 9];
        data[offset..offset + v.len()].copy_from_slice(v);
        Buf { data, offset, n: v.len() }
    }
    fn out(n: usize, offset: usize) -> Buf {
        let mut b = Buf::new(&vec![0.0; n], offset);
        for x in b.slice_mut() {
            *x = sentinel();
        }
        b
    }
    fn slice(&self) -> &[f64] {
        &self.data[self.offset..self.offset + self.n]
    }
    fn slice_mut(&mut self) -> &mut [f64] {
        &mut self.data[self.offset..self.offset + self.n]
    }
    fn canaries_ok(&self) -> bool {
        self.data[..self.offset].iter().all(|x| x.to_bits() == CANARY)
            && self.data[self.offset + self.n..].iter().all(|x| x.to_bits() == CANARY)
    }
    fn unchanged(&self, orig: &[f64]) -> bool {
        self.slice().iter().zip(orig).all(|(a, b)| a.to_bits() == b.to_bits())
    }
}

fn check_inputs(ctx: &mut Ctx, bufs: &[(&Buf, &[f64])]) {
    for (i, (b, orig)) in bufs.iter().enumerate() {
        if !b.unchanged(orig) {
            ctx.fail("input_modified", i, 0.0, "inputs must not be written".into());
        }
        if !b.canaries_ok() {
            ctx.fail("out_of_bounds_write", i, 0.0, "canary around input overwritten".into());
        }
    }
}

fn check_out_written(ctx: &mut Ctx, out: &Buf) -> bool {
    if !out.canaries_ok() {
        ctx.fail("out_of_bounds_write", 0, 0.0, "canary around output overwritten".into());
        return false;
    }
    for (i, x) in out.slice().iter().enumerate() {
        if x.to_bits() == SENTINEL {
            ctx.fail("element_not_written", i, *x, "every output element written".into());
            return false;
        }
    }
    true
}

/// Reduction oracle: `res` vs the double-double reference `sum`, absolute sum of term magnitudes
/// `abs_sum`, `n` terms.
fn reduction_ok(res: f64, terms: &[(f64, f64)]) -> Result<(), String> {
    // terms: (s_i, x_i) such that the value is Σ s_i * x_i
    let n = terms.len();
    let mut plain = 0.0;
    let mut any_nonfinite = false;
    for &(s, x) in terms {
        let t = s * x;
        if !t.is_finite() {
            any_nonfinite = true;
        }
        plain += t;
    }
    if any_nonfinite {
        // class must match the scalar formula (NaN stays NaN, inf keeps sign)
        return if same_class(res, plain) && (plain.is_finite() == res.is_finite()) {
            Ok(())
        } else {
            Err(format!("class of scalar formula {plain:e}"))
        };
    }
    let mut acc = DD(0.0, 0.0);
    let mut abs = 0.0;
    for &(s, x) in terms {
        acc = acc.add_dd(dd_prod(s, x));
        abs += (s * x).abs();
    }
    let reference = acc.val();
    let eps = f64::EPSILON;
    let bound = (n as f64 + 8.0) * eps * abs + (n as f64 + 1.0) * 4.0 * f64::from_bits(1) + eps * reference.abs();
    if !res.is_finite() {
        return Err(format!("finite reference {reference:e}"));
    }
    if (res - reference).abs() <= bound {
        Ok(())
    } else {
        Err(format!("reference {reference:e} bound {bound:e} err {:e}", (res - reference).abs()))
    }
}

fn sum3(p1: f64, n1: f64, p2: f64) -> Vec<f64> {
    vec![(p1 + p2) - n1, (p1 - n1) + p2]
}

fn run_kernels(report: &mut Report, rng: &mut HRng, arch: pulp::Arch, arch_name: &'static str, n: usize, offset: usize, class: Class, seed: u64, case: u64) {
    let vs: Vec<Vec<f64>> = (0..5).map(|s| gen_vec(rng, n, class, s)).collect();
    let a = gen_scalar(rng, class);
    let eps = gen_scalar(rng, if class == Class::FullRange { Class::Uniform } else { class });
    macro_rules! mk { ($op:expr, $r:expr) => { Ctx { report: $r, op: $op, arch: arch_name, n, offset, class, seed, case } }; }
    let mut h = Fnv::new();
    h.u64(n as u64).u64(offset as u64).u64(class as u64).str(arch_name);
    report.nontrivial(h.finish());

    // axpy: y = a*x + y
    {
        let x = Buf::new(&vs[0], offset);
        let mut y = Buf::new(&vs[1], (offset + 3) % 8);
        k::axpy(arch, x.slice(), y.slice_mut(), a);
        let mut ctx = mk!("axpy", &mut *report);
        check_inputs(&mut ctx, &[(&x, &vs[0])]);
        if !y.canaries_ok() {
            ctx.fail("out_of_bounds_write", 0, 0.0, "canary".into());
        }
        for i in 0..n {
            let c = [a.mul_add(vs[0][i], vs[1][i]), a * vs[0][i] + vs[1][i]];
            if !accept(y.slice()[i], &c, 2) {
                ctx.fail("wrong_value", i, y.slice()[i], format!("{:e} or {:e}", c[0], c[1]));
                break;
            }
        }
        ctx.report.eval();
    }
    // axpy_out
    {
        let x = Buf::new(&vs[0], offset);
        let y = Buf::new(&vs[1], (offset + 5) % 8);
        let mut out = Buf::out(n, (offset + 2) % 8);
        k::axpy_out(arch, x.slice(), y.slice(), a, out.slice_mut());
        let mut ctx = mk!("axpy_out", &mut *report);
        check_inputs(&mut ctx, &[(&x, &vs[0]), (&y, &vs[1])]);
        if check_out_written(&mut ctx, &out) {
            for i in 0..n {
                let c = [a.mul_add(vs[0][i], vs[1][i]), a * vs[0][i] + vs[1][i]];
                if !accept(out.slice()[i], &c, 2) {
                    ctx.fail("wrong_value", i, out.slice()[i], format!("{:e} or {:e}", c[0], c[1]));
                    break;
                }
            }
        }
        ctx.report.eval();
    }
    // multiply
    {
        let x = Buf::new(&vs[0], offset);
        let y = Buf::new(&vs[1], (offset + 1) % 8);
        let mut out = Buf::out(n, (offset + 6) % 8);
        k::multiply(arch, x.slice(), y.slice(), out.slice_mut());
        let mut ctx = mk!("multiply", &mut *report);
        check_inputs(&mut ctx, &[(&x, &vs[0]), (&y, &vs[1])]);
        if check_out_written(&mut ctx, &out) {
            for i in 0..n {
                let c = [vs[0][i] * vs[1][i]];
                if !accept(out.slice()[i], &c, 0) {
                    ctx.fail("wrong_value", i, out.slice()[i], format!("{:e}", c[0]));
                    break;
                }
            }
        }
        ctx.report.eval();
    }
    // multiply_inplace(out, x): out = x * out
    {
        let x = Buf::new(&vs[0], offset);
        let mut out = Buf::new(&vs[1], (offset + 4) % 8);
        k::multiply_inplace(arch, out.slice_mut(), x.slice());
        let mut ctx = mk!("multiply_inplace", &mut *report);
        check_inputs(&mut ctx, &[(&x, &vs[0])]);
        if !out.canaries_ok() {
            ctx.fail("out_of_bounds_write", 0, 0.0, "canary".into());
        }
        for i in 0..n {
            let c = [vs[0][i] * vs[1][i]];
            if !accept(out.slice()[i], &c, 0) {
                ctx.fail("wrong_value", i, out.slice()[i], format!("{:e}", c[0]));
                break;
            }
        }
        ctx.report.eval();
    }
    // vector_dot
    {
        let x = Buf::new(&vs[0], offset);
        let y = Buf::new(&vs[1], (offset + 7) % 8);
        let r = k::vector_dot(arch, x.slice(), y.slice());
        let mut ctx = mk!("vector_dot", &mut *report);
        check_inputs(&mut ctx, &[(&x, &vs[0]), (&y, &vs[1])]);
        let terms: Vec<(f64, f64)> = (0..n).map(|i| (vs[0][i], vs[1][i])).collect();
        if let Err(e) = reduction_ok(r, &terms) {
            ctx.fail("wrong_value", 0, r, e);
        }
        ctx.report.eval();
    }
    // scalar_prods2
    {
        let b: Vec<Buf> = (0..4).map(|j| Buf::new(&vs[j], (offset + j) % 8)).collect();
        let (r1, r2) = k::scalar_prods2(arch, b[0].slice(), b[1].slice(), b[2].slice(), b[3].slice());
        let mut ctx = mk!("scalar_prods2", &mut *report);
        check_inputs(&mut ctx, &[(&b[0], &vs[0]), (&b[1], &vs[1]), (&b[2], &vs[2]), (&b[3], &vs[3])]);
        let t1: Vec<(f64, f64)> = (0..n).map(|i| (vs[0][i] + vs[1][i], vs[2][i])).collect();
        let t2: Vec<(f64, f64)> = (0..n).map(|i| (vs[0][i] + vs[1][i], vs[3][i])).collect();
        if let Err(e) = reduction_ok(r1, &t1) {
            ctx.fail("wrong_value_first", 0, r1, e);
        }
        if let Err(e) = reduction_ok(r2, &t2) {
            ctx.fail("wrong_value_second", 0, r2, e);
        }
        ctx.report.eval();
    }
    // scalar_prods3
    {
        let b: Vec<Buf> = (0..5).map(|j| Buf::new(&vs[j], (offset + 2 * j) % 8)).collect();
        let (r1, r2) =
            k::scalar_prods3(arch, b[0].slice(), b[1].slice(), b[2].slice(), b[3].slice(), b[4].slice());
        let mut ctx = mk!("scalar_prods3", &mut *report);
        check_inputs(
            &mut ctx,
            &[(&b[0], &vs[0]), (&b[1], &vs[1]), (&b[2], &vs[2]), (&b[3], &vs[3]), (&b[4], &vs[4])],
        );
        // (p1 - n1 + p2) may legitimately be formed in either order; both are tried
        let mut ok1 = Err(String::new());
        let mut ok2 = Err(String::new());
        for variant in 0..2 {
            let t1: Vec<(f64, f64)> =
                (0..n).map(|i| (sum3(vs[0][i], vs[1][i], vs[2][i])[variant], vs[3][i])).collect();
            let t2: Vec<(f64, f64)> =
                (0..n).map(|i| (sum3(vs[0][i], vs[1][i], vs[2][i])[variant], vs[4][i])).collect();
            if ok1.is_err() {
                ok1 = reduction_ok(r1, &t1).or_else(|e| if variant == 1 { Err(e) } else { Err(e) });
            }
            if ok2.is_err() {
                ok2 = reduction_ok(r2, &t2);
            }
        }
        // mixed main-loop / tail orders: accept the wider bound built from both variants
        if ok1.is_err() || ok2.is_err() {
            let mixed = |res: f64, xi: usize| -> Result<(), String> {
                let mut any_nonfinite = false;
                let mut acc = DD(0.0, 0.0);
                let mut abs = 0.0;
                let mut plain = 0.0;
                for i in 0..n {
                    let s = sum3(vs[0][i], vs[1][i], vs[2][i]);
                    let x = vs[xi][i];
                    let t = s[0] * x;
                    if !t.is_finite() || !(s[1] * x).is_finite() {
                        any_nonfinite = true;
                    }
                    plain += t;
                    acc = acc.add_dd(dd_prod(s[0], x));
                    abs += t.abs() + ((s[0] - s[1]) * x).abs();
                }
                if any_nonfinite {
                    return if same_class(res, plain) { Ok(()) } else { Err(format!("class {plain:e}")) };
                }
                let bound = (n as f64 + 8.0) * f64::EPSILON * abs
                    + (0..n)
                        .map(|i| {
                            let s = sum3(vs[0][i], vs[1][i], vs[2][i]);
                            ((s[0] - s[1]) * vs[xi][i]).abs()
                        })
                        .sum::<f64>()
                    + (n as f64 + 1.0) * 4.0 * f64::from_bits(1);
                if res.is_finite() && (res - acc.val()).abs() <= bound {
                    Ok(())
                } else {
                    Err(format!("reference {:e} bound {bound:e}", acc.val()))
                }
            };
            if ok1.is_err() {
                ok1 = mixed(r1, 3);
            }
            if ok2.is_err() {
                ok2 = mixed(r2, 4);
            }
        }
        if let Err(e) = ok1 {
            ctx.fail("wrong_value_first", 0, r1, e);
        }
        if let Err(e) = ok2 {
            ctx.fail("wrong_value_second", 0, r2, e);
        }
        ctx.report.eval();
    }
    // std_norm_flow
    {
        let pos = Buf::new(&vs[0], offset);
        let mut pos_out = Buf::out(n, (offset + 3) % 8);
        let mut vel = Buf::new(&vs[1], (offset + 5) % 8);
        k::std_norm_flow(arch, pos.slice(), pos_out.slice_mut(), vel.slice_mut(), eps);
        let mut ctx = mk!("std_norm_flow", &mut *report);
        check_inputs(&mut ctx, &[(&pos, &vs[0])]);
        if !vel.canaries_ok() {
            ctx.fail("out_of_bounds_write", 1, 0.0, "canary".into());
        }
        let (s, c) = (eps.sin(), eps.cos());
        if check_out_written(&mut ctx, &pos_out) {
            for i in 0..n {
                let (p, v) = (vs[0][i], vs[1][i]);
                let po = [p.mul_add(c, v * s), p * c + v * s, v.mul_add(s, p * c)];
                let vo = [p.mul_add(-s, v * c), p * (-s) + v * c, v.mul_add(c, p * (-s)), v * c - p * s];
                let tol_p = 4.0 * f64::EPSILON * ((p * c).abs() + (v * s).abs()) + 8.0 * f64::from_bits(1);
                let tol_v = 4.0 * f64::EPSILON * ((p * s).abs() + (v * c).abs()) + 8.0 * f64::from_bits(1);
                let okp = accept(pos_out.slice()[i], &po, 2)
                    || (po[0].is_finite() && (pos_out.slice()[i] - po[0]).abs() <= tol_p);
                let okv = accept(vel.slice()[i], &vo, 2)
                    || (vo[0].is_finite() && (vel.slice()[i] - vo[0]).abs() <= tol_v);
                if !okp {
                    ctx.fail("wrong_position", i, pos_out.slice()[i], format!("{:e}", po[0]));
                    break;
                }
                if !okv {
                    ctx.fail("wrong_velocity", i, vel.slice()[i], format!("{:e}", vo[0]));
                    break;
                }
            }
        }
        ctx.report.eval();
    }
    // std_norm_grad_flow (out of place and in place)
    {
        let pos = Buf::new(&vs[0], offset);
        let grad = Buf::new(&vs[1], (offset + 1) % 8);
        let vel = Buf::new(&vs[2], (offset + 2) % 8);
        let mut out = Buf::out(n, (offset + 7) % 8);
        k::std_norm_grad_flow(arch, pos.slice(), grad.slice(), vel.slice(), out.slice_mut(), eps);
        let mut vel2 = Buf::new(&vs[2], (offset + 4) % 8);
        k::std_norm_grad_flow_inplace(arch, pos.slice(), grad.slice(), vel2.slice_mut(), eps);
        let mut ctx = mk!("std_norm_grad_flow", &mut *report);
        check_inputs(&mut ctx, &[(&pos, &vs[0]), (&grad, &vs[1]), (&vel, &vs[2])]);
        if !vel2.canaries_ok() {
            ctx.fail("out_of_bounds_write", 2, 0.0, "canary".into());
        }
        if check_out_written(&mut ctx, &out) {
            for i in 0..n {
                let (p, g, v) = (vs[0][i], vs[1][i], vs[2][i]);
                let c = [eps.mul_add(p + g, v), v + eps * (p + g)];
                if !accept(out.slice()[i], &c, 2) {
                    ctx.fail("wrong_value", i, out.slice()[i], format!("{:e} or {:e}", c[0], c[1]));
                    break;
                }
                if !accept(vel2.slice()[i], &c, 2) {
                    ctx.fail("wrong_value_inplace", i, vel2.slice()[i], format!("{:e} or {:e}", c[0], c[1]));
                    break;
                }
            }
        }
        ctx.report.evals(2);
    }
}

fn col(math: &mut CpuMath<Logged>, v: &[f64]) -> <CpuMath<Logged> as Math>::Vector {
    let mut a = math.new_array();
    math.read_from_slice(&mut a, v);
    a
}

fn run_public(report: &mut Report, rng: &mut HRng, n: usize, class: Class, seed: u64, case: u64) {
    let mut math = CpuMath::new(Logged::new(Target::iso(n, 0.0), false));
    let vs: Vec<Vec<f64>> = (0..5).map(|s| gen_vec(rng, n, class, s)).collect();
    let a = gen_scalar(rng, class);
    let eps = gen_scalar(rng, if class == Class::FullRange { Class::Uniform } else { class });
    macro_rules! mk { ($op:expr, $r:expr) => { Ctx { report: $r, op: $op, arch: "cpumath", n, offset: 0, class, seed, case } }; }
    let mut h = Fnv::new();
    h.u64(n as u64).u64(class as u64).str("cpumath");
    report.nontrivial(h.finish());
    let c: Vec<_> = vs.iter().map(|v| col(&mut math, v)).collect();
    let rd = |math: &mut CpuMath<Logged>, v: &<CpuMath<Logged> as Math>::Vector| math.box_array(v).into_vec();

    macro_rules! inputs_unchanged {
        ($ctx:expr, $($i:expr),*) => {
            $( if !rd(&mut math, &c[$i]).iter().zip(&vs[$i]).all(|(a, b)| a.to_bits() == b.to_bits()) {
                $ctx.fail("input_modified", $i, 0.0, "inputs must not be written".into());
            } )*
        };
    }

    // axpy / axpy_out
    {
        let mut y = col(&mut math, &vs[1]);
        math.axpy(&c[0], &mut y, a);
        let mut out = col(&mut math, &vec![sentinel(); n]);
        math.axpy_out(&c[0], &c[1], a, &mut out);
        let (y, out) = (rd(&mut math, &y), rd(&mut math, &out));
        let mut ctx = mk!("axpy", &mut *report);
        inputs_unchanged!(ctx, 0, 1);
        for i in 0..n {
            let cand = [a.mul_add(vs[0][i], vs[1][i]), a * vs[0][i] + vs[1][i]];
            if !accept(y[i], &cand, 2) {
                ctx.fail("wrong_value", i, y[i], format!("{:e}", cand[0]));
                break;
            }
            if out[i].to_bits() == SENTINEL || !accept(out[i], &cand, 2) {
                ctx.fail("wrong_value_out", i, out[i], format!("{:e}", cand[0]));
                break;
            }
        }
        ctx.report.evals(2);
    }
    // array_mult / inplace / recip / fill / copy
    {
        let mut out = col(&mut math, &vec![sentinel(); n]);
        math.array_mult(&c[0], &c[1], &mut out);
        let mut inpl = col(&mut math, &vs[0]);
        math.array_mult_inplace(&mut inpl, &c[1]);
        let mut rec = col(&mut math, &vec![sentinel(); n]);
        math.array_recip(&c[0], &mut rec);
        let mut fill = col(&mut math, &vec![sentinel(); n]);
        math.fill_array(&mut fill, a);
        let mut cp = col(&mut math, &vec![sentinel(); n]);
        math.copy_into(&c[2], &mut cp);
        let (out, inpl, rec, fill, cp) =
            (rd(&mut math, &out), rd(&mut math, &inpl), rd(&mut math, &rec), rd(&mut math, &fill), rd(&mut math, &cp));
        let mut ctx = mk!("array_mult", &mut *report);
        inputs_unchanged!(ctx, 0, 1, 2);
        for i in 0..n {
            let want = vs[0][i] * vs[1][i];
            if !accept(out[i], &[want], 0) {
                ctx.fail("wrong_value", i, out[i], format!("{want:e}"));
                break;
            }
            if !accept(inpl[i], &[want], 0) {
                ctx.fail("wrong_value_inplace", i, inpl[i], format!("{want:e}"));
                break;
            }
            if !accept(rec[i], &[vs[0][i].recip(), 1.0 / vs[0][i]], 0) {
                ctx.fail("wrong_recip", i, rec[i], format!("{:e}", vs[0][i].recip()));
                break;
            }
            if fill[i].to_bits() != a.to_bits() && !(fill[i].is_nan() && a.is_nan()) {
                ctx.fail("wrong_fill", i, fill[i], format!("{a:e}"));
                break;
            }
            if cp[i].to_bits() != vs[2][i].to_bits() {
                ctx.fail("wrong_copy", i, cp[i], format!("{:e}", vs[2][i]));
                break;
            }
        }
        ctx.report.evals(5);
    }
    // reductions
    {
        let dotv = math.array_vector_dot(&c[0], &c[1]);
        let (p2a, p2b) = math.scalar_prods2(&c[0], &c[1], &c[2], &c[3]);
        let (p3a, p3b) = math.scalar_prods3(&c[0], &c[1], &c[2], &c[3], &c[4]);
        let sq = math.sq_norm_sum(&c[0], &c[1]);
        let mut ctx = mk!("reductions", &mut *report);
        inputs_unchanged!(ctx, 0, 1, 2, 3, 4);
        let t: Vec<(f64, f64)> = (0..n).map(|i| (vs[0][i], vs[1][i])).collect();
        if let Err(e) = reduction_ok(dotv, &t) {
            ctx.fail("wrong_dot", 0, dotv, e);
        }
        let t1: Vec<(f64, f64)> = (0..n).map(|i| (vs[0][i] + vs[1][i], vs[2][i])).collect();
        let t2: Vec<(f64, f64)> = (0..n).map(|i| (vs[0][i] + vs[1][i], vs[3][i])).collect();
        if let Err(e) = reduction_ok(p2a, &t1) {
            ctx.fail("wrong_prods2_first", 0, p2a, e);
        }
        if let Err(e) = reduction_ok(p2b, &t2) {
            ctx.fail("wrong_prods2_second", 0, p2b, e);
        }
        let tsq: Vec<(f64, f64)> = (0..n).map(|i| (vs[0][i] + vs[1][i], vs[0][i] + vs[1][i])).collect();
        if let Err(e) = reduction_ok(sq, &tsq) {
            ctx.fail("wrong_sq_norm_sum", 0, sq, e);
        }
        // the statistic built on this reduction is evaluated where the second vector is almost minus the first (whitened
        // position and gradient of a Gaussian): a sum of squares of small residuals, accurate to rounding as well
        if vs[0].iter().all(|x| x.is_finite() && x.abs() < 1e150) {
            for scale in [1e-6f64, 1e-12, 0.0] {
                let y: Vec<f64> = (0..n)
                    .map(|i| {
                        let x = vs[0][i];
                        if scale == 0.0 { -x * (1.0 + f64::EPSILON * (i % 4) as f64) } else { -x + scale * x.abs() * ((i % 5) as f64 - 2.0) }
                    })
                    .collect();
                let yc = col(&mut math, &y);
                let sq2 = math.sq_norm_sum(&c[0], &yc);
                let t: Vec<(f64, f64)> = (0..n).map(|i| (vs[0][i] + y[i], vs[0][i] + y[i])).collect();
                if let Err(e) = reduction_ok(sq2, &t) {
                    ctx.fail("wrong_sq_norm_sum_of_residuals", 0, sq2, e);
                    break;
                }
                ctx.report.eval();
            }
        }
        // prods3 on classes without catastrophic (p1+p2)-n1 vs p1-n1+p2 ambiguity only
        if matches!(class, Class::Uniform | Class::Ones | Class::SignedZeros | Class::WithNan | Class::WithInf) {
            for (res, xi, name) in [(p3a, 3usize, "wrong_prods3_first"), (p3b, 4usize, "wrong_prods3_second")] {
                let mut best = Err(String::new());
                for variant in 0..2 {
                    let t: Vec<(f64, f64)> =
                        (0..n).map(|i| (sum3(vs[0][i], vs[1][i], vs[2][i])[variant], vs[xi][i])).collect();
                    let r = reduction_ok(res, &t);
                    if r.is_ok() {
                        best = r;
                        break;
                    }
                    best = r;
                }
                if let Err(e) = best {
                    // allow one extra n*eps*abs slack for the mixed order
                    let abs: f64 = (0..n)
                        .map(|i| (sum3(vs[0][i], vs[1][i], vs[2][i])[0] * vs[xi][i]).abs())
                        .sum();
                    let reference: f64 = {
                        let mut acc = DD(0.0, 0.0);
                        for i in 0..n {
                            acc = acc.add_dd(dd_prod(sum3(vs[0][i], vs[1][i], vs[2][i])[0], vs[xi][i]));
                        }
                        acc.val()
                    };
                    let allfinite = (0..n).all(|i| {
                        vs[0][i].is_finite() && vs[1][i].is_finite() && vs[2][i].is_finite() && vs[xi][i].is_finite()
                    });
                    if !(allfinite && res.is_finite() && (res - reference).abs() <= 4.0 * (n as f64 + 8.0) * f64::EPSILON * (abs + 4.0 * n as f64)) {
                        ctx.fail(name, 0, res, e);
                    }
                }
            }
        }
        ctx.report.evals(6);
    }
    // finiteness tests
    {
        let f = math.array_all_finite(&c[0]);
        let fnz = math.array_all_finite_and_nonzero(&c[0]);
        let want_f = vs[0].iter().all(|x| x.is_finite());
        let want_fnz = vs[0].iter().all(|x| x.is_finite() && *x != 0.0);
        let mut ctx = mk!("finiteness", &mut *report);
        if f != want_f {
            ctx.fail("wrong_all_finite", 0, f as u8 as f64, format!("{want_f}"));
        }
        if fnz != want_fnz {
            ctx.fail("wrong_all_finite_nonzero", 0, fnz as u8 as f64, format!("{want_fnz}"));
        }
        ctx.report.evals(2);
    }
    // harmonic flows
    {
        let mut pos_out = col(&mut math, &vec![sentinel(); n]);
        let mut vel = col(&mut math, &vs[1]);
        math.std_norm_flow(&c[0], &mut pos_out, &mut vel, eps);
        let mut vout = col(&mut math, &vec![sentinel(); n]);
        math.std_norm_grad_flow(&c[0], &c[1], &c[2], &mut vout, eps);
        let mut vin = col(&mut math, &vs[2]);
        math.std_norm_grad_flow_inplace(&c[0], &c[1], &mut vin, eps);
        let (pos_out, vel, vout, vin) =
            (rd(&mut math, &pos_out), rd(&mut math, &vel), rd(&mut math, &vout), rd(&mut math, &vin));
        let mut ctx = mk!("harmonic_flow", &mut *report);
        inputs_unchanged!(ctx, 0, 1, 2);
        let (s, cc) = (eps.sin(), eps.cos());
        for i in 0..n {
            let (p, v) = (vs[0][i], vs[1][i]);
            let po = [p.mul_add(cc, v * s), p * cc + v * s];
            let vo = [p.mul_add(-s, v * cc), p * (-s) + v * cc];
            let tol_p = 4.0 * f64::EPSILON * ((p * cc).abs() + (v * s).abs()) + 8.0 * f64::from_bits(1);
            let tol_v = 4.0 * f64::EPSILON * ((p * s).abs() + (v * cc).abs()) + 8.0 * f64::from_bits(1);
            if !(accept(pos_out[i], &po, 2) || (po[0].is_finite() && (pos_out[i] - po[0]).abs() <= tol_p)) {
                ctx.fail("wrong_position", i, pos_out[i], format!("{:e}", po[0]));
                break;
            }
            if !(accept(vel[i], &vo, 2) || (vo[0].is_finite() && (vel[i] - vo[0]).abs() <= tol_v)) {
                ctx.fail("wrong_velocity", i, vel[i], format!("{:e}", vo[0]));
                break;
            }
            let g = vs[1][i];
            let v2 = vs[2][i];
            let cand = [eps.mul_add(p + g, v2), v2 + eps * (p + g)];
            if vout[i].to_bits() == SENTINEL || !accept(vout[i], &cand, 2) {
                ctx.fail("wrong_grad_flow", i, vout[i], format!("{:e}", cand[0]));
                break;
            }
            if !accept(vin[i], &cand, 2) {
                ctx.fail("wrong_grad_flow_inplace", i, vin[i], format!("{:e}", cand[0]));
                break;
            }
        }
        ctx.report.evals(3);
    }
    // normalisation (skipped for the all-zero vector: trait documentation and scalar formula
    // disagree there, the property does not take a side)
    if n > 0 && vs[0].iter().any(|x| *x != 0.0) {
        let mut v = col(&mut math, &vs[0]);
        math.array_normalize(&mut v);
        let v = rd(&mut math, &v);
        let mut ctx = mk!("normalize", &mut *report);
        let ss: f64 = vs[0].iter().map(|x| x * x).sum();
        let norm = ss.sqrt();
        let inv = 1.0 / norm;
        let nonfinite = vs[0].iter().any(|x| !x.is_finite());
        // away from the overflow / underflow boundary of the sum of squares only
        let safe = ss.is_finite() && ss > 1e-280 && ss < 1e280;
        for i in 0..n {
            let want = vs[0][i] * inv;
            if nonfinite {
                if !same_class(v[i], want) {
                    ctx.fail("wrong_class", i, v[i], format!("{want:e}"));
                    break;
                }
            } else if safe {
                let tol = (n as f64 + 8.0) * f64::EPSILON * want.abs() + 4.0 * f64::from_bits(1);
                if !((v[i] - want).abs() <= tol) {
                    ctx.fail("wrong_value", i, v[i], format!("{want:e}"));
                    break;
                }
            }
        }
        if !nonfinite && safe {
            let nn: f64 = v.iter().map(|x| x * x).sum::<f64>().sqrt();
            if !((nn - 1.0).abs() <= (n as f64 + 8.0) * f64::EPSILON) {
                ctx.fail("not_unit_norm", 0, nn, "1".into());
            }
        }
        ctx.report.eval();
    }
    // low-rank application: (I + U (diag(vals) - I) U^T) rhs for ranks 0..=min(n,4) and n
    if matches!(class, Class::Uniform | Class::Ones | Class::WithNan | Class::WithInf | Class::SignedZeros) {
        // one math object sees ranks going up and then down again (scratch space is reused between calls)
        let mut ranks: Vec<usize> = (0..=n.min(4)).collect();
        if n > 4 && n <= 24 {
            ranks.push(n);
        }
        ranks.extend((1..n.min(4)).rev());
        for rank in ranks {
            let cols = crate::util::random_orthonormal(rng, n, rank);
            let vals: Vec<f64> = (0..rank).map(|_| rng.log_range(0.05, 20.0)).collect();
            let vecs = math.new_eig_vectors(cols.iter().map(|c| &c[..]));
            let valv = math.new_eig_values(&vals);
            let mut dest = col(&mut math, &vec![sentinel(); n]);
            let mut inpl = col(&mut math, &vs[0]);
            if let Err(p) = crate::util::guard(|| {
                math.apply_lowrank_transform(&vecs, &valv, &c[0], &mut dest);
                math.apply_lowrank_transform_inplace(&vecs, &valv, &mut inpl);
            }) {
                let mut ctx = mk!("lowrank", &mut *report);
                ctx.fail("panic", 0, f64::NAN, format!("no panic (rank {rank} after other ranks on the same math object): {p}"));
                break;
            }
            let (dest, inpl) = (rd(&mut math, &dest), rd(&mut math, &inpl));
            let mut ctx = mk!("lowrank", &mut *report);
            inputs_unchanged!(ctx, 0);
            let rhs = &vs[0];
            let finite = rhs.iter().all(|x| x.is_finite());
            // reference
            let mut want = rhs.clone();
            let mut mag = rhs.iter().map(|x| x.abs()).collect::<Vec<_>>();
            for (kk, u) in cols.iter().enumerate() {
                let proj: f64 = u.iter().zip(rhs).map(|(a, b)| a * b).sum();
                let projabs: f64 = u.iter().zip(rhs).map(|(a, b)| (a * b).abs()).sum();
                for i in 0..n {
                    want[i] += u[i] * (vals[kk] - 1.0) * proj;
                    mag[i] += (u[i] * (vals[kk] - 1.0)).abs() * projabs;
                }
            }
            for i in 0..n {
                for (name, got) in [("wrong_value", dest[i]), ("wrong_value_inplace", inpl[i])] {
                    if got.to_bits() == SENTINEL {
                        ctx.fail("element_not_written", i, got, "written".into());
                        continue;
                    }
                    if finite {
                        let tol = 8.0 * (n as f64 + rank as f64 + 8.0) * f64::EPSILON * mag[i] + 1e-300;
                        if !((got - want[i]).abs() <= tol) {
                            ctx.fail(name, i, got, format!("{:e} (rank {rank})", want[i]));
                        }
                    } else if rank == 0 {
                        if got.to_bits() != rhs[i].to_bits() && !(got.is_nan() && rhs[i].is_nan()) {
                            ctx.fail(name, i, got, format!("{:e} (rank 0 copy)", rhs[i]));
                        }
                    } else if rhs[i].is_nan() && !got.is_nan() {
                        // a NaN in rhs[i] must stay NaN in dest[i] (dest = rhs + ...)
                        ctx.fail("nan_lost", i, got, "NaN".into());
                    }
                }
            }
            ctx.report.evals(2);
        }
    }
}

pub fn run(args: &Args, report: &mut Report) {
    report.rule = "exhaustive over (length n in 0..=130) x (offset 0..7) x (value class) x (arch Scalar, native) for the \
        hook-exported kernels and over (n) x (class) for the public CpuMath methods, `reps` random fillings each; \
        a case is non-trivial/distinct by its (n, offset, class, arch) tuple".into();
    report.assumptions.push("pulp's AVX-512 path is not compiled into this crate's feature set; SSE-only is not a pulp arch: Scalar and x86-v3 (AVX2+FMA) are exercised".into());
    report.assumptions.push("reductions are compared with a double-double reference under the running error bound (n+8)*eps*sum|terms|".into());
    let native = pulp::Arch::new();
    let native_name: &'static str = match format!("{native:?}").as_str() {
        s if s.starts_with("V3") => "x86-v3",
        s if s.starts_with("V4") => "x86-v4",
        _ => "scalar-detected",
    };
    report.set("native_arch", json!(native_name));
    let reps = report.size(6, 300);
    let seed = args.seed;
    let mut case: u64 = 0;

    if let Some(r) = &args.replay {
        // replay a single (n, offset, class, arch) tuple with the recorded case number
        let n = r["n"].as_u64().unwrap() as usize;
        let offset = r["offset"].as_u64().unwrap() as usize;
        let want_case = r["case"].as_u64().unwrap();
        let seed = r["seed"].as_u64().unwrap();
        let class = *CLASSES.iter().find(|c| format!("{c:?}") == r["class"].as_str().unwrap()).unwrap();
        let mut rng = HRng::new(seed).fork(want_case);
        match r["arch"].as_str().unwrap() {
            "cpumath" => run_public(report, &mut rng, n, class, seed, want_case),
            "scalar" => run_kernels(report, &mut rng, pulp::Arch::Scalar, "scalar", n, offset, class, seed, want_case),
            _ => run_kernels(report, &mut rng, native, native_name, n, offset, class, seed, want_case),
        }
        return;
    }

    let base = HRng::new(seed);
    for n in 0..=130usize {
        for &class in CLASSES.iter() {
            for rep in 0..reps {
                for offset in 0..8usize {
                    // quick: every offset is visited for every n, spread over classes/reps
                    if !report.thorough() && (offset + n + rep as usize + class as usize) % 4 != 0 {
                        case += 2;
                        continue;
                    }
                    let mut rng = base.fork(case);
                    run_kernels(report, &mut rng, pulp::Arch::Scalar, "scalar", n, offset, class, seed, case);
                    case += 1;
                    let mut rng = base.fork(case);
                    run_kernels(report, &mut rng, native, native_name, n, offset, class, seed, case);
                    case += 1;
                }
                let mut rng = base.fork(case);
                run_public(report, &mut rng, n, class, seed, case);
                case += 1;
            }
        }
    }
    report.exhaustive = report.thorough();
    report.sample(json!({"op": "axpy", "arch": native_name, "n": 37, "offset": 3, "class": "FullRange",
        "oracle": "each y[i] within 2 ulp of fma(a,x,y) or a*x+y, canaries intact, x bit-identical"}));
    report.sample(json!({"op": "scalar_prods3", "arch": "scalar", "n": 130, "offset": 7, "class": "Cancelling",
        "oracle": "|res - dd_reference| <= (n+8) eps sum|s_i x_i|"}));
    report.sample(json!({"op": "lowrank", "arch": "cpumath", "n": 9, "rank": 4, "class": "WithNan",
        "oracle": "dest = rhs + U(diag(vals)-I)U^T rhs; NaN in rhs[i] stays NaN"}));
}
