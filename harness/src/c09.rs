//! C09 — adaptation windows discard stale draws and honour the schedule.

use std::collections::BTreeMap;

use nuts_rs::verif::DualAverageOptions;
use serde_json::{Value as J, json};

use crate::Args;
use crate::chains::{Preset, chain_on, get_path, start_point};
use crate::dens::{Fault, Logged, Target};
use crate::report::Report;
use crate::util::{Fnv, HRng, guard, panic_site};

#[derive(Clone, Debug)]
struct Cfg {
    preset: Preset,
    num_tune: u64,
    patches: Vec<(String, J)>,
    target: &'static str,
    faults: Vec<u64>,
    seed: u64,
}

fn gen_cfg(seed: u64, idx: u64) -> Cfg {
    let mut rng = HRng::new(seed).fork(idx);
    let preset = [Preset::DiagNuts, Preset::LowRankNuts, Preset::DiagMclmc, Preset::LowRankMclmc][(idx % 4) as usize];
    let num_tune = if idx % 5 == 0 { rng.int_range(20, 1200) } else { rng.int_range(20, 300) } as u64;
    let mut patches: Vec<(String, J)> = vec![
        ("num_tune".into(), json!(num_tune)),
        ("num_draws".into(), json!(10)),
        ("adapt_options.step_size_settings.jitter".into(), J::Null),
        ("adapt_options.early_window".into(), json!(rng.range(0.0, 0.7))),
        ("adapt_options.step_size_window".into(), json!(rng.range(0.0, 0.5))),
        ("adapt_options.mass_matrix_switch_freq".into(), json!(rng.int_range(2, 90))),
        ("adapt_options.early_mass_matrix_switch_freq".into(), json!(rng.int_range(1, 25))),
        ("adapt_options.mass_matrix_update_freq".into(), json!(rng.int_range(1, 30))),
        ("adapt_options.mass_matrix_window_growth".into(), json!(if rng.bool(0.3) { 1.0 } else { rng.range(1.0, 3.0) })),
    ];
    if rng.bool(0.3) {
        patches.push(("adapt_options.step_size_settings.target_accept".into(), json!(rng.range(0.6, 0.95))));
    }
    if preset.is_nuts() {
        patches.push(("maxdepth".into(), json!(rng.int_range(3, 6))));
    } else {
        patches.push(("step_size".into(), json!(0.3)));
        patches.push(("momentum_decoherence_length".into(), json!(1.2)));
    }
    if matches!(preset, Preset::DiagNuts | Preset::DiagMclmc) && (idx / 4) % 4 == 3 {
        // scales from the draw variance alone (rarely used option of the diagonal presets)
        patches.push(("adapt_options.mass_matrix_options.use_grad_based_estimate".into(), json!(false)));
    }
    let target = *rng.choose(&["iso", "scaled", "funnel"]);
    if target == "funnel" && rng.bool(0.6) {
        patches.push(("max_energy_error".into(), json!(rng.log_range(0.5, 20.0))));
    }
    // seeded recoverable faults (produce divergent draws at known places)
    let n_faults = if rng.bool(0.5) { rng.below(12) } else { 0 };
    let faults = (0..n_faults).map(|_| rng.below(num_tune * 12)).collect();
    Cfg { preset, num_tune, patches, target, faults, seed: rng.next_u64() }
}

fn cfg_json(c: &Cfg) -> J {
    json!({"preset": c.preset.name(), "num_tune": c.num_tune, "target": c.target, "seed": c.seed, "faults": c.faults,
        "patches": c.patches.iter().map(|(p, v)| json!([p, v])).collect::<Vec<_>>()})
}

fn cfg_from_json(j: &J) -> Cfg {
    Cfg {
        preset: Preset::from_name(j["preset"].as_str().unwrap()).unwrap(),
        num_tune: j["num_tune"].as_u64().unwrap(),
        target: match j["target"].as_str().unwrap() {
            "iso" => "iso",
            "scaled" => "scaled",
            _ => "funnel",
        },
        seed: j["seed"].as_u64().unwrap(),
        faults: j["faults"].as_array().unwrap().iter().map(|v| v.as_u64().unwrap()).collect(),
        patches: j["patches"].as_array().unwrap().iter().map(|e| (e[0].as_str().unwrap().to_string(), e[1].clone())).collect(),
    }
}

pub struct RefDual {
    pub log_step: f64,
    pub log_bar: f64,
    pub hbar: f64,
    pub mu: f64,
    pub count: u64,
}

impl RefDual {
    pub fn new(initial: f64) -> Self {
        RefDual { log_step: initial.ln(), log_bar: initial.ln(), hbar: 0.0, mu: (10.0 * initial).ln(), count: 1 }
    }
    pub fn advanced(&self, o: &DualAverageOptions, a: f64, target: f64) -> RefDual {
        let t = self.count as f64;
        let w = 1.0 / (t + o.t0);
        let hbar = (1.0 - w) * self.hbar + w * (target - a);
        let log_step = (self.mu - hbar * t.sqrt() / o.gamma).min(o.max_step_size.ln()).max(f64::MIN_POSITIVE.ln());
        let m = t.powf(-o.k);
        let log_bar = m * log_step + (1.0 - m) * self.log_bar;
        RefDual { log_step, log_bar, hbar, mu: self.mu, count: self.count + 1 }
    }
}

fn run_cfg(report: &mut Report, c: &Cfg, verbose: bool) {
    report.eval();
    let pname = c.preset.name();
    let replay = cfg_json(c);
    let sig = |what: &str| format!("C09:{pname}:{what}");
    let mut trng = HRng::new(c.seed);
    let target = match c.target {
        "iso" => Target::iso(3, 0.5),
        "scaled" => Target::scaled(&mut trng, 4, 100.0),
        _ => Target::Funnel { k: 2 },
    };
    let start = start_point(&target, &mut trng);
    let dens = Logged::new(target, false);
    {
        let mut l = dens.log.lock().unwrap();
        for k in &c.faults {
            l.plan.insert(*k + 30, Fault::Recoverable);
        }
    }
    let mut patches: Vec<(&str, J)> = c.patches.iter().map(|(p, v)| (p.as_str(), v.clone())).collect();
    // diagonal presets: the estimate itself is recomputed from the draws and gradients of the window (by value)
    let track = matches!(c.preset, Preset::DiagNuts | Preset::DiagMclmc);
    if track {
        patches.push(("store_unconstrained", json!(true)));
        patches.push(("store_gradient", json!(true)));
    }
    let start_grad = {
        let mut g = vec![0.0; start.len()];
        dens.target.eval(&start, &mut g);
        g
    };
    // samples (position, gradient) in the estimator in use and in its replacement; None = a sample the harness cannot see
    let mut fgw: Vec<Option<(Vec<f64>, Vec<f64>)>> = vec![Some((start.clone(), start_grad.clone()))];
    let mut bgw: Vec<Option<(Vec<f64>, Vec<f64>)>> = vec![Some((start.clone(), start_grad))];
    let mut track_ok = track;
    let draw_only = c.patches.iter().any(|(p, v)| p.ends_with("use_grad_based_estimate") && v == &json!(false));
    let built = guard(|| {
        let (mut chain, _) = chain_on(c.preset, &patches, dens.clone(), c.seed).expect("settings");
        let r = chain.set_position(&start);
        (chain, r)
    });
    let (mut chain, init) = match built {
        Ok(v) => v,
        Err(p) => {
            report.violation(format!("C09:{pname}:panic_in_setup:{}", panic_site(&p)), p, replay);
            return;
        }
    };
    if init.is_err() {
        report.inconclusive("set_position failed");
        return;
    }
    let s = chain.settings_json().clone();
    let getf = |p: &str| get_path(&s, p).and_then(|v| v.as_f64()).unwrap();
    let getu = |p: &str| get_path(&s, p).and_then(|v| v.as_u64()).unwrap();
    let early_freq = getu("adapt_options.early_mass_matrix_switch_freq");
    let growth = getf("adapt_options.mass_matrix_window_growth");
    let target_accept = getf("adapt_options.step_size_settings.target_accept");
    let da = DualAverageOptions {
        k: getf("adapt_options.step_size_settings.adapt_options.dual_average.k"),
        t0: getf("adapt_options.step_size_settings.adapt_options.dual_average.t0"),
        gamma: getf("adapt_options.step_size_settings.adapt_options.dual_average.gamma"),
        max_step_size: getf("adapt_options.step_size_settings.adapt_options.dual_average.max_step_size"),
    };
    let Some(w0) = chain.window() else {
        report.inconclusive("no window state for this preset");
        return;
    };
    let (e_end, f_win, nt) = (w0.early_end, w0.final_step_size_window, w0.num_tune);
    // phase boundaries must follow the settings
    let want_e = (getf("adapt_options.early_window") * nt as f64) as u64;
    let want_f = nt.saturating_sub((getf("adapt_options.step_size_window") * nt as f64) as u64);
    if e_end.abs_diff(want_e) > 1 || f_win.abs_diff(want_f) > 1 {
        report.violation(sig("phase_boundaries"), format!("early_end {e_end} (settings {want_e}), final window start {f_win} (settings {want_f})"), replay.clone());
    }
    let mut pre = w0;
    let mut duals: Vec<RefDual> = if c.preset.is_nuts() { vec![RefDual::new(chain.current_step_size())] } else { vec![] };
    let (mut n_switch, mut n_good, mut n_bad, mut n_div) = (0u64, 0u64, 0u64, 0u64);
    let mut researched = false;
    let mut last_id = chain.scales().map(|s| s.id).unwrap_or(-1);
    let mut seen_change = false;
    let mut windows_seen: Vec<u64> = vec![];
    for d in 0..(nt + 5) {
        let evals0 = dens.evals();
        let out = match guard(|| chain.draw()) {
            Ok(Ok(o)) => o,
            Ok(Err(e)) => {
                if !c.faults.is_empty() {
                    // a seeded fault hit the re-evaluation of the current point in the re-run search (known C05 finding)
                    report.inconclusive("seeded recoverable fault made a draw fail");
                } else {
                    report.violation(sig("draw_error"), format!("draw {d}: {e}"), replay.clone());
                }
                return;
            }
            Err(p) => {
                report.violation(format!("C09:{pname}:panic_in_draw:{}", panic_site(&p)), format!("draw {d}: {p}"), replay.clone());
                return;
            }
        };
        let evals = dens.evals() - evals0;
        let post = chain.window().unwrap();
        let index = out.i64("index_in_trajectory").unwrap_or(0);
        let diverging = out.progress.diverging;
        if diverging {
            n_div += 1;
        }
        // which draws count: moved and not divergent; divergent draws only far from the divergence start
        let counts: &[u64] = if diverging {
            // MCLMC reports the (unmoved) returned state; the state offered to the estimators is the last valid
            // state of the failed trajectory, whose distance from the start is not observable here
            if index.unsigned_abs() > 4 || !c.preset.is_nuts() { &[0, 1] } else { &[0] }
        } else if index != 0 {
            &[1]
        } else {
            &[0]
        };
        if d < f_win {
            let early = d < e_end;
            let cws = if !early && d == e_end { pre.current_window_size.max(pre.background_count) } else { pre.current_window_size };
            let required = if early { early_freq } else { cws };
            let next = if early { early_freq } else { (cws + 1).max((cws as f64 * growth).round() as u64) };
            let mut explained = false;
            let mut took: Option<(u64, bool)> = None;
            // hypotheses: this draw counted `inc` times, followed by a switch or not
            'outer: for &inc in counts {
                for switched in [false, true] {
                    if !switched {
                        if !(post.foreground_count == pre.foreground_count + inc && post.background_count == pre.background_count + inc) {
                            continue;
                        }
                        // with an empty background and nothing counted a switch cannot be told apart: prefer "no switch"
                        explained = true;
                        took = Some((inc, false));
                        if inc == 1 { n_good += 1 } else { n_bad += 1 }
                        // a switch that was due must not be skipped (+-1 slack on both conditions)
                        let bg = pre.background_count + inc;
                        if bg > required && next + d < f_win {
                            report.violation(
                                sig("switch_skipped"),
                                format!("draw {d}: background holds {bg} accepted draws (required {required}), next window {next} fits before {f_win}, but no switch"),
                                replay.clone(),
                            );
                        }
                        break 'outer;
                    } else {
                        if !(post.background_count == 0 && post.foreground_count == pre.background_count + inc) {
                            continue;
                        }
                        explained = true;
                        took = Some((inc, true));
                        if inc == 1 { n_good += 1 } else { n_bad += 1 }
                        n_switch += 1;
                        let bg = pre.background_count + inc;
                        windows_seen.push(bg);
                        if bg + 1 < required {
                            report.violation(
                                sig("switch_before_window_full"),
                                format!("draw {d} ({}): switched with {bg} accepted draws in the background, required {required}", if early { "early phase" } else { "main phase" }),
                                replay.clone(),
                            );
                        }
                        if next + d > f_win + 1 {
                            report.violation(
                                sig("switch_without_room_for_another_window"),
                                format!("draw {d}: switched although the next window ({next}) does not fit before the final step size window at {f_win}"),
                                replay.clone(),
                            );
                        }
                        if !early && post.current_window_size.abs_diff(next) > 1 {
                            report.violation(sig("window_growth"), format!("draw {d}: window size {} after a switch, expected {next} (growth {growth})", post.current_window_size), replay.clone());
                        }
                        break 'outer;
                    }
                }
            }
            if verbose {
                eprintln!("  d {d}: took {took:?} index {index} div {diverging} pre ({},{}) post ({},{}) x {:?} g {:?}", pre.foreground_count, pre.background_count, post.foreground_count, post.background_count, out.vec("unconstrained_draw"), out.vec("gradient"));
            }
            // the counts alone may admit two explanations (a counted draw followed by a switch looks like an uncounted
            // draw when the background was empty): then the contents of the windows are not known any more
            if track_ok {
                let mut n_expl = 0;
                for &inc in counts {
                    if post.foreground_count == pre.foreground_count + inc && post.background_count == pre.background_count + inc {
                        n_expl += 1;
                    }
                    if post.background_count == 0 && post.foreground_count == pre.background_count + inc {
                        n_expl += 1;
                    }
                }
                if n_expl > 1 {
                    track_ok = false;
                    report.count("window_contents_ambiguous", 1);
                }
            }
            if let (true, Some((inc, switched))) = (track_ok, took) {
                if inc == 1 {
                    // the state offered to the estimators is the returned draw (NUTS, also for divergent draws); for a
                    // divergent MCLMC draw it is the last state of the failed trajectory, which is not observable
                    let sample = match (out.vec("unconstrained_draw"), out.vec("gradient")) {
                        (Some(x), Some(g)) if !(diverging && !c.preset.is_nuts()) => Some((x.clone(), g.clone())),
                        _ => None,
                    };
                    fgw.push(sample.clone());
                    bgw.push(sample);
                }
                if switched {
                    fgw = std::mem::take(&mut bgw);
                }
                if fgw.len() as u64 != post.foreground_count || bgw.len() as u64 != post.background_count {
                    // the window model lost track (one of the tolerated ambiguities): stop recomputing values
                    track_ok = false;
                    report.inconclusive("window contents not tracked to the end");
                }
            }
            if !explained {
                report.violation(
                    sig("estimator_counts"),
                    format!(
                        "draw {d} (index {index}, diverging {diverging}): counts fg {} bg {} -> fg {} bg {} are not explained by counting this draw {:?} times",
                        pre.foreground_count, pre.background_count, post.foreground_count, post.background_count, counts
                    ),
                    replay.clone(),
                );
                return;
            }
        } else if post.foreground_count != pre.foreground_count || post.background_count != pre.background_count {
            report.violation(sig("estimators_fed_in_final_window"), format!("draw {d} >= {f_win}: counts changed"), replay.clone());
        }
        // first transformation change re-runs the step size search
        let id_now = chain.scales().map(|s| s.id).unwrap_or(-1);
        if track_ok && id_now != last_id && d < f_win && fgw.len() >= 3 && fgw.iter().all(|s| s.is_some()) {
            // the estimate installed by this draw's adaptation is the one of the window in use: for every coordinate
            // std^4 = var(draws) / var(gradients) over exactly these samples (older draws must not enter)
            let sc = chain.scales().unwrap();
            let n = fgw.len() as f64;
            let dim = sc.stds.len();
            let mut worst: f64 = 0.0;
            for i in 0..dim {
                let xs: Vec<f64> = fgw.iter().map(|s| s.as_ref().unwrap().0[i]).collect();
                let gs: Vec<f64> = fgw.iter().map(|s| s.as_ref().unwrap().1[i]).collect();
                // two admissible forms of "variance over the window": the centred sum of squares, and the running
                // form the estimator uses (squared distance of every sample from the mean of its predecessors);
                // both see these samples only
                let (mx, mg) = (xs.iter().sum::<f64>() / n, gs.iter().sum::<f64>() / n);
                let batch = |v: &[f64], m: f64| -> f64 { v.iter().map(|x| (x - m) * (x - m)).sum() };
                let running = |v: &[f64]| -> f64 {
                    let (mut mean, mut acc) = (v[0], 0.0);
                    for (k, x) in v.iter().enumerate().skip(1) {
                        let diff = x - mean;
                        mean += diff / (k as f64 + 1.0);
                        acc += diff * diff;
                    }
                    acc
                };
                let mut best = f64::INFINITY;
                let mut valid = false;
                let mut near_clamp = false;
                if draw_only {
                    // variance of the draws of the window (either normalisation, either form)
                    for vx in [batch(&xs, mx), running(&xs)] {
                        for norm_by in [n, n - 1.0] {
                            let val = vx / norm_by;
                            if val.is_finite() && val > 1e-19 && val < 1e19 {
                                valid = true;
                                let want = val.sqrt();
                                best = best.min((sc.stds[i] - want).abs() / want);
                            } else {
                                near_clamp = true;
                            }
                        }
                    }
                }
                for (vx, vg) in [(batch(&xs, mx), batch(&gs, mg)), (running(&xs), running(&gs))] {
                    if draw_only {
                        break;
                    }
                    let val = (vx / vg).sqrt();
                    if !(val.is_finite() && val > 1e-19 && val < 1e19) {
                        near_clamp = true;
                    }
                    if val.is_finite() && val > 1e-19 && val < 1e19 {
                        valid = true;
                        let want = val.sqrt();
                        best = best.min((sc.stds[i] - want).abs() / want);
                    }
                }
                if !valid || near_clamp {
                    continue; // invalid or clamped estimate: the previous value stays / the clamp decides
                }
                worst = worst.max(best);
            }
            if verbose {
                eprintln!("draw {d}: id {last_id} -> {id_now}, fg {} bg {}, worst {worst:e}, pre {:?} post {:?}", fgw.len(), bgw.len(), pre, post);
            }
            if !(worst <= 1e-6) {
                if verbose {
                    eprintln!("  stds {:?}\n  fg samples {:?}", sc.stds, fgw);
                    use nuts_rs::verif::*;
                    use crate::script::ScriptMath;
                    let dimn = sc.stds.len();
                    let mut math = ScriptMath::new(Logged::new(Target::iso(dimn, 0.0), false));
                    let mut strat = <DiagAdaptStrategy<crate::chains::SM> as MassMatrixAdaptStrategy<crate::chains::SM>>::new(&mut math, nuts_rs::DiagAdaptExpSettings::default(), 100, 0);
                    let mut mm = diag_new(&mut math, false);
                    let mut coll = new_draw_grad_collector(&mut math);
                    for smp in fgw.iter().flatten() {
                        set_draw_grad_collector(&mut math, &mut coll, &smp.0, &smp.1, true);
                        strat.update_estimators(&mut math, &coll);
                    }
                    strat.adapt(&mut math, &mut mm);
                    eprintln!("  estimator on these samples: {:?}", diag_parts(&mut math, &mm).stds);
                }
                report.violation(
                    sig("estimate_is_not_the_one_of_the_window_in_use"),
                    format!("draw {d}: installed scales differ from the estimate over the {} samples of the window in use by a relative {worst:e} (background holds {})", fgw.len(), bgw.len()),
                    replay.clone(),
                );
                return;
            }
            report.count("window_estimates_recomputed", 1);
        }
        let first_change = !seen_change && id_now != last_id;
        if id_now != last_id {
            seen_change = true;
        }
        last_id = id_now;
        if first_change && c.preset.is_nuts() {
            let n_steps = out.u64("n_steps").unwrap_or(0);
            if evals <= n_steps {
                report.violation(sig("no_step_size_search_after_first_update"), format!("draw {d}: first transformation change (id {id_now}), {evals} evaluations for {n_steps} steps"), replay.clone());
            }
        }
        let reinit = pre.has_initial_mass_matrix && !post.has_initial_mass_matrix;
        if reinit && c.preset.is_nuts() {
            researched = true;
            let n_steps = out.u64("n_steps").unwrap_or(0);
            if evals <= n_steps {
                report.violation(sig("no_step_size_search_after_first_update"), format!("draw {d}: first transformation change, {evals} evaluations for {n_steps} steps"), replay.clone());
            }
            if out.stat("transformation_update_id").is_none() {
                report.violation(sig("first_update_without_event"), format!("draw {d}"), replay.clone());
            }
        }
        // dual averaging replay (jitter off): asymmetric statistic before the final window, symmetric inside.
        // A small set of hypotheses is kept because both statistics can give (almost) the same average.
        if !duals.is_empty() && d < nt {
            let bar = out.f64("step_size_bar").unwrap_or(f64::NAN);
            let (a, a_sym) = (out.f64("mean_tree_accept").unwrap_or(f64::NAN), out.f64("mean_tree_accept_sym").unwrap_or(f64::NAN));
            let ok = |r: &RefDual| (bar.ln() - r.log_bar).abs() <= 1e-9 * (1.0 + r.log_bar.abs());
            let mut next_set: Vec<RefDual> = vec![];
            let mut sym_only_fail = false;
            for rd in &duals {
                let cand_sym = rd.advanced(&da, a_sym, target_accept);
                let cand_asym = rd.advanced(&da, a, target_accept);
                if ok(&cand_sym) {
                    next_set.push(cand_sym);
                }
                if ok(&cand_asym) {
                    if d < f_win {
                        next_set.push(cand_asym);
                    } else {
                        sym_only_fail = true;
                    }
                }
            }
            if reinit && (bar.ln() - out.progress.step_size.ln()).abs() <= 1e-9 {
                // the search succeeded: the adaptation restarts from the step it found
                next_set = vec![RefDual::new(out.progress.step_size)];
            }
            // drop near-duplicates, bound the set
            next_set.sort_by(|x, y| (x.log_bar, x.hbar, x.log_step).partial_cmp(&(y.log_bar, y.hbar, y.log_step)).unwrap_or(std::cmp::Ordering::Equal));
            next_set.dedup_by(|x, y| (x.log_bar - y.log_bar).abs() < 1e-13 && (x.hbar - y.hbar).abs() < 1e-13);
            if next_set.len() > 256 {
                report.inconclusive("too many dual averaging hypotheses");
                next_set.clear();
                duals.clear();
            }
            if next_set.is_empty() && !duals.is_empty() {
                let what = if d >= f_win {
                    if sym_only_fail { "final_window_uses_asymmetric_statistic" } else { "step_size_bar_not_reproduced_in_final_window" }
                } else {
                    "step_size_bar_not_reproduced"
                };
                report.violation(
                    sig(what),
                    format!("draw {d} (final window from {f_win}, re-run search: {reinit}): reported step_size_bar {bar}, acceptance {a} / symmetric {a_sym}; replay from {} hypotheses gives {:?}",
                        duals.len(), duals.iter().take(2).map(|r| (r.advanced(&da, a, target_accept).log_bar.exp(), r.advanced(&da, a_sym, target_accept).log_bar.exp())).collect::<Vec<_>>()),
                    replay.clone(),
                );
            } else {
                report.count("dual_average_steps_replayed", 1);
            }
            duals = next_set;
        }
        pre = post;
    }
    let mut h = Fnv::new();
    h.str(pname).str(c.target).u64(n_switch.min(6)).u64((n_bad > 0) as u64).u64((n_div > 0) as u64).u64(researched as u64).u64((nt > 300) as u64);
    report.nontrivial(h.finish());
    report.count("draws_observed", nt + 5);
    report.count("window_switches_observed", n_switch);
    report.count("accepted_draws_counted", n_good);
    report.count("stuck_or_divergent_draws_not_counted", n_bad);
    if report.samples.len() < 2 && n_switch >= 2 {
        report.sample(json!({"config": replay, "early_end": e_end, "final_window_start": f_win, "background_sizes_at_switches": windows_seen}));
    }
    if verbose {
        eprintln!("switches {n_switch} at background sizes {windows_seen:?}; good {n_good} bad {n_bad} div {n_div}; E {e_end} F {f_win}");
    }
}

pub fn run(args: &Args, report: &mut Report) {
    report.rule = "real chains (Diag/LowRank x NUTS/MCLMC) with num_tune 20..1200 and random early_window, step_size_window, switch / early switch / \
        update frequencies and growth factors on iso / scaled / funnel targets, with seeded recoverable faults for divergent draws; the window \
        bookkeeping is read after every draw (hook accessor) and dual averaging / Adam are replayed from the reported statistics; distinct = (preset, \
        target, number of switches, saw stuck draws, saw divergences, saw the re-run search, long warmup)".into();
    report.assumptions.push("divergent draws far from the divergence start (|index| > 4) may be counted or not; +-1 draw slack on every window boundary".into());
    report.assumptions.push("before the final step-size window the replay accepts either acceptance statistic (the implementation switches to the symmetric one as soon as no further window fits)".into());
    if let Some(r) = &args.replay {
        if r.get("kind").and_then(|k| k.as_str()) == Some("adam_chain") {
            crate::c07::adam_chain_case(report, r["seed"].as_u64().unwrap(), r["idx"].as_u64().unwrap(), "C09");
        } else {
            run_cfg(report, &cfg_from_json(r), true);
        }
        return;
    }
    let seed = args.seed ^ 0xC09;
    let n = report.size(4800, 800_000);
    crate::report::par_run(report, n, |i, rep| run_cfg(rep, &gen_cfg(seed, i), false));
    // the same clause for the Adam method: the replay of C07's chain-level Adam monitor (asymmetric statistic before,
    // symmetric one inside the final window)
    let n_adam = report.size(640, 100_000);
    crate::report::par_run(report, n_adam, |i, rep| crate::c07::adam_chain_case(rep, seed, i, "C09"));
}
