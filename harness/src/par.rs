//! Runner for the parallel `Sampler`: typed start-up per preset, scripted client commands with a
//! call/return log on the global logical clock, recording storage backend, watchdog.

use std::collections::{BTreeMap, HashMap};
use std::sync::Arc;
use std::sync::mpsc;
use std::time::{Duration, Instant};

use nuts_rs::{
    DiagMclmcSettings, DiagNutsSettings, FlowMclmcSettings, FlowNutsSettings, LowRankMclmcSettings,
    LowRankNutsSettings, Sampler, SamplerWaitResult, Settings,
};
use serde_json::{Value as J, json};

use crate::chains::Preset;
use crate::dens::{Fault, ModelFaults, Target, VModel};
use crate::recorder::{RecConfig, RecFinal, RecShared, Record, StorageFaults};
use crate::sched;
use crate::util::guard;

#[derive(Clone, Debug, PartialEq)]
pub enum Cmd {
    Pause,
    Resume,
    Progress,
    Flush,
    Inspect,
    /// wait_timeout with this many milliseconds
    Wait(u64),
    Abort,
    SleepUs(u64),
    /// wait until `n` gates (in total) have been reached
    AwaitGates(usize),
    /// release all currently held gates and drop the ones that did not fire
    ReleaseGates,
    /// poll progress until every chain reports `started` or the budget (ms) is used up
    AwaitStarted(u64),
    /// poll progress until the sum of finished draws reaches n (budget ms)
    AwaitDraws(u64, u64),
    /// poll progress until it does not change any more (three equal snapshots 1 ms apart, budget 5 s) and
    /// take a snapshot of the recorded trace at that moment
    Quiesce,
}

impl Cmd {
    pub fn name(&self) -> String {
        match self {
            Cmd::Pause => "pause".into(),
            Cmd::Resume => "resume".into(),
            Cmd::Progress => "progress".into(),
            Cmd::Flush => "flush".into(),
            Cmd::Inspect => "inspect".into(),
            Cmd::Wait(ms) => format!("wait({ms})"),
            Cmd::Abort => "abort".into(),
            Cmd::SleepUs(us) => format!("sleep({us})"),
            Cmd::AwaitGates(n) => format!("await_gates({n})"),
            Cmd::ReleaseGates => "release_gates".into(),
            Cmd::AwaitStarted(ms) => format!("await_started({ms})"),
            Cmd::AwaitDraws(n, ms) => format!("await_draws({n},{ms})"),
            Cmd::Quiesce => "quiesce".into(),
        }
    }
    pub fn to_json(&self) -> J {
        json!(self.name())
    }
    pub fn from_json(j: &J) -> Cmd {
        let s = j.as_str().unwrap();
        let num = |s: &str| -> Vec<u64> { s[s.find('(').unwrap() + 1..s.len() - 1].split(',').map(|x| x.parse().unwrap()).collect() };
        match s {
            "pause" => Cmd::Pause,
            "resume" => Cmd::Resume,
            "progress" => Cmd::Progress,
            "flush" => Cmd::Flush,
            "inspect" => Cmd::Inspect,
            "abort" => Cmd::Abort,
            "release_gates" => Cmd::ReleaseGates,
            "quiesce" => Cmd::Quiesce,
            _ if s.starts_with("wait(") => Cmd::Wait(num(s)[0]),
            _ if s.starts_with("sleep(") => Cmd::SleepUs(num(s)[0]),
            _ if s.starts_with("await_gates(") => Cmd::AwaitGates(num(s)[0] as usize),
            _ if s.starts_with("await_started(") => Cmd::AwaitStarted(num(s)[0]),
            _ if s.starts_with("await_draws(") => Cmd::AwaitDraws(num(s)[0], num(s)[1]),
            _ => panic!("bad command {s}"),
        }
    }
}

#[derive(Clone, Debug)]
pub struct ProgressLite {
    pub finished_draws: usize,
    pub total_draws: usize,
    pub divergences: usize,
    pub tuning: bool,
    pub started: bool,
    pub total_num_steps: usize,
    pub latest_num_steps: usize,
    pub step_size: f64,
}

#[derive(Clone, Debug)]
pub enum CallOutcome {
    Ok,
    Err(String),
    Progress(Vec<ProgressLite>),
    Inspected(Vec<(u64, usize)>),
    /// progress snapshot at a quiescent point + per chain (records, post-warmup divergences, sum of num_steps, last clock)
    Quiesced(Vec<ProgressLite>, BTreeMap<u64, (usize, usize, usize, u64)>),
    Timeout,
    Finished,
    Skipped,
}

#[derive(Clone, Debug)]
pub struct CallLog {
    pub cmd: Cmd,
    pub t_call: u64,
    pub t_ret: u64,
    pub outcome: CallOutcome,
}

#[derive(Debug)]
pub enum Final {
    Trace(RecFinal),
    Err(String, Option<RecFinal>),
    /// abort() returned Ok((maybe error, trace))
    Aborted(Option<String>, RecFinal),
    AbortErr(String),
    /// the client panicked (payload of the panic)
    ClientPanic(String),
    /// the script ended and the final wait budget was used up
    NotFinished,
}

#[derive(Debug)]
pub struct RunLog {
    pub calls: Vec<CallLog>,
    pub fin: Final,
    pub records: BTreeMap<u64, Vec<Record>>,
    pub events: Vec<sched::Event>,
    pub gate_timeouts: u64,
    pub finalized_chains: Vec<u64>,
    pub density_evals: HashMap<i64, u64>,
    /// per chain: indices of evaluations at a position that the chain had evaluated before (only with
    /// `keep_eval_records`): the re-run of the step size search starts with one
    pub revisit_evals: HashMap<i64, Vec<u64>>,
}

#[derive(Clone, Debug)]
pub struct RunSpec {
    pub preset: Preset,
    pub settings: J,
    pub target: Target,
    pub cores: usize,
    pub delays: HashMap<i64, u64>,
    pub plans: HashMap<i64, BTreeMap<u64, Fault>>,
    pub model_faults: ModelFaults,
    pub storage_faults: StorageFaults,
    pub sched_seed: u64,
    pub yield_permille: u32,
    pub sleep_permille: u32,
    pub max_sleep_us: u64,
    pub gates: Vec<sched::Gate>,
    pub log_events: bool,
    pub script: Vec<Cmd>,
    /// budget for the final wait after the script (milliseconds)
    pub final_wait_ms: u64,
    /// keep every density evaluation of every chain (positions) so that re-evaluated points can be located
    pub keep_eval_records: bool,
}

impl RunSpec {
    pub fn new(preset: Preset, settings: J, target: Target, cores: usize) -> Self {
        RunSpec {
            preset,
            settings,
            target,
            cores,
            delays: HashMap::new(),
            plans: HashMap::new(),
            model_faults: ModelFaults::default(),
            storage_faults: StorageFaults::default(),
            sched_seed: 0,
            yield_permille: 0,
            sleep_permille: 0,
            max_sleep_us: 0,
            gates: vec![],
            log_events: false,
            script: vec![],
            final_wait_ms: 60_000,
            keep_eval_records: false,
        }
    }
}

fn start_typed<S: Settings>(j: &J, model: VModel, cfg: RecConfig, cores: usize) -> anyhow::Result<Sampler<RecFinal>> {
    let s: S = serde_json::from_value(j.clone())?;
    Sampler::new(model, s, cfg, cores, None)
}

pub fn start(preset: Preset, j: &J, model: VModel, cfg: RecConfig, cores: usize) -> anyhow::Result<Sampler<RecFinal>> {
    match preset {
        Preset::DiagNuts => start_typed::<DiagNutsSettings>(j, model, cfg, cores),
        Preset::LowRankNuts => start_typed::<LowRankNutsSettings>(j, model, cfg, cores),
        Preset::FlowNuts => start_typed::<FlowNutsSettings>(j, model, cfg, cores),
        Preset::DiagMclmc => start_typed::<DiagMclmcSettings>(j, model, cfg, cores),
        Preset::LowRankMclmc => start_typed::<LowRankMclmcSettings>(j, model, cfg, cores),
        Preset::FlowMclmc => start_typed::<FlowMclmcSettings>(j, model, cfg, cores),
    }
}

fn lite(p: &nuts_rs::ChainProgress) -> ProgressLite {
    ProgressLite {
        finished_draws: p.finished_draws,
        total_draws: p.total_draws,
        divergences: p.divergences,
        tuning: p.tuning,
        started: p.started,
        total_num_steps: p.total_num_steps,
        latest_num_steps: p.latest_num_steps,
        step_size: p.step_size,
    }
}

/// Execute one run (on the calling thread).
pub fn run(spec: &RunSpec) -> RunLog {
    sched::reset(sched::Config {
        log_events: spec.log_events,
        yield_permille: spec.yield_permille,
        sleep_permille: spec.sleep_permille,
        max_sleep_us: spec.max_sleep_us,
        seed: spec.sched_seed,
        gates: spec.gates.clone(),
        gate_timeout: Duration::from_secs(20),
    });
    let mut model = VModel::new(spec.target.clone());
    model.delays = spec.delays.clone();
    model.plans = spec.plans.clone();
    model.faults = spec.model_faults.clone();
    model.keep_records = spec.keep_eval_records;
    model.math_uses_rng = spec.model_faults.math_uses_rng;

    let (cfg, shared) = RecConfig::with_faults(spec.storage_faults.clone());
    let model_logs = model.logs.clone();
    let mut calls = vec![];
    let fin;
    let started = guard(|| start(spec.preset, &spec.settings, model, cfg, spec.cores));
    let mut sampler = match started {
        Err(p) => {
            return finish(calls, Final::ClientPanic(format!("Sampler::new panicked: {p}")), &shared, model_logs);
        }
        Ok(Err(e)) => {
            return finish(calls, Final::Err(format!("Sampler::new: {e:#}"), None), &shared, model_logs);
        }
        Ok(Ok(s)) => Some(s),
    };
    let mut done: Option<Final> = None;
    for cmd in &spec.script {
        let t_call = sched::tick();
        let outcome = if sampler.is_none() {
            CallOutcome::Skipped
        } else {
            let r = guard(|| -> (CallOutcome, Option<Final>, bool) {
                let s = sampler.as_mut().unwrap();
                match cmd {
                    Cmd::Pause => (res(s.pause()), None, false),
                    Cmd::Resume => (res(s.resume()), None, false),
                    Cmd::Flush => (res(s.flush()), None, false),
                    Cmd::Progress => match s.progress() {
                        Ok(p) => (CallOutcome::Progress(p.iter().map(lite).collect()), None, false),
                        Err(e) => (CallOutcome::Err(format!("{e:#}")), None, false),
                    },
                    Cmd::Inspect => match s.inspect() {
                        Ok((_err, t)) => (CallOutcome::Inspected(t.chains.iter().map(|c| (c.0, c.1.len())).collect()), None, false),
                        Err(e) => (CallOutcome::Err(format!("{e:#}")), None, false),
                    },
                    Cmd::SleepUs(us) => {
                        std::thread::sleep(Duration::from_micros(*us));
                        (CallOutcome::Ok, None, false)
                    }
                    Cmd::AwaitGates(n) => match sched::wait_arrivals(*n, Duration::from_secs(10)) {
                        Some(_) => (CallOutcome::Ok, None, false),
                        None => (CallOutcome::Timeout, None, false),
                    },
                    Cmd::ReleaseGates => {
                        sched::clear_gates();
                        sched::release(None);
                        (CallOutcome::Ok, None, false)
                    }
                    Cmd::AwaitStarted(ms) => {
                        let t0 = Instant::now();
                        loop {
                            match s.progress() {
                                Ok(p) if p.iter().all(|c| c.started) => break (CallOutcome::Ok, None, false),
                                Ok(_) if t0.elapsed() > Duration::from_millis(*ms) => break (CallOutcome::Timeout, None, false),
                                Ok(_) => std::thread::sleep(Duration::from_micros(200)),
                                Err(e) => break (CallOutcome::Err(format!("{e:#}")), None, false),
                            }
                        }
                    }
                    Cmd::AwaitDraws(n, ms) => {
                        let t0 = Instant::now();
                        loop {
                            match s.progress() {
                                Ok(p) if p.iter().map(|c| c.finished_draws as u64).sum::<u64>() >= *n => break (CallOutcome::Ok, None, false),
                                Ok(_) if t0.elapsed() > Duration::from_millis(*ms) => break (CallOutcome::Timeout, None, false),
                                Ok(_) => std::thread::sleep(Duration::from_micros(200)),
                                Err(e) => break (CallOutcome::Err(format!("{e:#}")), None, false),
                            }
                        }
                    }
                    Cmd::Quiesce => {
                        // quiescent = every chain that has started is blocked at the PAUSED schedule point or has left
                        // its loop (a poll of progress() cannot tell an idle chain from one in the middle of a slow draw)
                        let t0 = Instant::now();
                        loop {
                            let pts = sched::chain_points();
                            let idle = pts.values().all(|p| p.0 == sched::pt::CHAIN_PAUSED || p.0 == sched::pt::CHAIN_EXIT);
                            if idle {
                                let before = s.progress();
                                let snap = shared.snapshot();
                                let pts2 = sched::chain_points();
                                let still = pts2 == pts;
                                match before {
                                    Err(e) => break (CallOutcome::Err(format!("{e:#}")), None, false),
                                    Ok(p) if still => {
                                        let counts = snap.iter().map(|(c, v)| {
                                            // divergences as the trace shows them: the recorded `diverging` statistic where there is one
                                            let div = |r: &Record| match r.stat("diverging") {
                                                Some(nuts_rs::Value::ScalarBool(b)) => *b,
                                                _ => r.diverging,
                                            };
                                            (*c, (v.len(), v.iter().filter(|r| div(r) && !r.tuning).count(), v.iter().map(|r| r.num_steps as usize).sum(), v.last().map(|r| r.clock).unwrap_or(0)))
                                        }).collect();
                                        break (CallOutcome::Quiesced(p.iter().map(lite).collect(), counts), None, false);
                                    }
                                    Ok(_) => {}
                                }
                            }
                            if t0.elapsed() > Duration::from_secs(20) {
                                break (CallOutcome::Timeout, None, false);
                            }
                            std::thread::sleep(Duration::from_micros(300));
                        }
                    }
                    Cmd::Wait(_) | Cmd::Abort => (CallOutcome::Ok, None, true),
                }
            });
            match r {
                Err(p) => {
                    done = Some(Final::ClientPanic(format!("{} panicked: {p}", cmd.name())));
                    sampler = None;
                    CallOutcome::Err(format!("panic: {p}"))
                }
                Ok((o, _, false)) => o,
                Ok((_, _, true)) => {
                    // consuming calls
                    let s = sampler.take().unwrap();
                    match cmd {
                        Cmd::Wait(ms) => match guard(move || s.wait_timeout(Duration::from_millis(*ms))) {
                            Err(p) => {
                                done = Some(Final::ClientPanic(format!("wait_timeout panicked: {p}")));
                                CallOutcome::Err(format!("panic: {p}"))
                            }
                            Ok(SamplerWaitResult::Trace(t)) => {
                                done = Some(Final::Trace(t));
                                CallOutcome::Finished
                            }
                            Ok(SamplerWaitResult::Timeout(s2)) => {
                                sampler = Some(s2);
                                CallOutcome::Timeout
                            }
                            Ok(SamplerWaitResult::Err(e, t)) => {
                                done = Some(Final::Err(format!("{e:#}"), t));
                                CallOutcome::Finished
                            }
                        },
                        _ => match guard(move || s.abort()) {
                            Err(p) => {
                                done = Some(Final::ClientPanic(format!("abort panicked: {p}")));
                                CallOutcome::Err(format!("panic: {p}"))
                            }
                            Ok(Ok((e, t))) => {
                                done = Some(Final::Aborted(e.map(|e| format!("{e:#}")), t));
                                CallOutcome::Finished
                            }
                            Ok(Err(e)) => {
                                done = Some(Final::AbortErr(format!("{e:#}")));
                                CallOutcome::Finished
                            }
                        },
                    }
                }
            }
        };
        let t_ret = sched::tick();
        calls.push(CallLog { cmd: cmd.clone(), t_call, t_ret, outcome });
    }
    // make sure nothing stays gated, then wait for the end
    sched::clear_gates();
    sched::release(None);
    if done.is_none() {
        if let Some(mut s) = sampler.take() {
            let t0 = Instant::now();
            loop {
                let t_call = sched::tick();
                match guard(move || s.wait_timeout(Duration::from_millis(50))) {
                    Err(p) => {
                        done = Some(Final::ClientPanic(format!("wait_timeout panicked: {p}")));
                        break;
                    }
                    Ok(SamplerWaitResult::Trace(t)) => {
                        calls.push(CallLog { cmd: Cmd::Wait(50), t_call, t_ret: sched::tick(), outcome: CallOutcome::Finished });
                        done = Some(Final::Trace(t));
                        break;
                    }
                    Ok(SamplerWaitResult::Err(e, t)) => {
                        calls.push(CallLog { cmd: Cmd::Wait(50), t_call, t_ret: sched::tick(), outcome: CallOutcome::Finished });
                        done = Some(Final::Err(format!("{e:#}"), t));
                        break;
                    }
                    Ok(SamplerWaitResult::Timeout(s2)) => {
                        s = s2;
                        if t0.elapsed() > Duration::from_millis(spec.final_wait_ms) {
                            // leave the sampler running detached: dropping it ends it
                            drop(s);
                            done = Some(Final::NotFinished);
                            break;
                        }
                    }
                }
            }
        }
    }
    fin = done.unwrap_or(Final::NotFinished);
    finish(calls, fin, &shared, model_logs)
}

fn res(r: anyhow::Result<()>) -> CallOutcome {
    match r {
        Ok(()) => CallOutcome::Ok,
        Err(e) => CallOutcome::Err(format!("{e:#}")),
    }
}

fn finish(calls: Vec<CallLog>, fin: Final, shared: &Arc<RecShared>, logs: Arc<std::sync::Mutex<HashMap<i64, crate::dens::SharedLog>>>) -> RunLog {
    // one lock of the log table at a time (a guard inside a struct literal lives until the end of the literal)
    let density_evals: HashMap<i64, u64> = {
        let g = logs.lock().unwrap();
        g.iter().map(|(c, l)| (*c, l.lock().unwrap().count)).collect()
    };
    let revisit_evals: HashMap<i64, Vec<u64>> = {
        let g = logs.lock().unwrap();
        g.iter()
            .map(|(c, l)| {
                let l = l.lock().unwrap();
                let mut seen = std::collections::HashSet::new();
                let mut v = vec![];
                for r in &l.records {
                    if !seen.insert(crate::util::hash_f64s(&r.position)) {
                        v.push(r.k);
                    }
                }
                (*c, v)
            })
            .collect()
    };
    RunLog {
        calls,
        fin,
        records: shared.snapshot(),
        events: sched::take_events(),
        gate_timeouts: sched::gate_timeouts(),
        finalized_chains: shared.finalized_chains.lock().unwrap().clone(),
        density_evals,
        revisit_evals,
    }
}

/// Process CPU time (user + system) in clock ticks.
pub fn process_cpu_ticks() -> u64 {
    let s = std::fs::read_to_string("/proc/self/stat").unwrap_or_default();
    let after = s.rsplit(')').next().unwrap_or("");
    let f: Vec<&str> = after.split_whitespace().collect();
    // fields after the command: state is index 0, utime index 11, stime index 12
    f.get(11).and_then(|x| x.parse::<u64>().ok()).unwrap_or(0) + f.get(12).and_then(|x| x.parse::<u64>().ok()).unwrap_or(0)
}

pub enum Watched {
    Done(RunLog),
    /// the run did not come back within the watchdog; `cpu_idle` tells whether the process consumed
    /// (almost) no CPU time during the last two seconds of waiting
    Stalled { cpu_idle: bool },
}

/// Run under a watchdog on a helper thread. A stalled run leaks its threads.
pub fn run_watched(spec: &RunSpec, watchdog: Duration) -> Watched {
    let (tx, rx) = mpsc::channel();
    let spec2 = spec.clone();
    std::thread::spawn(move || {
        let _ = tx.send(run(&spec2));
    });
    match rx.recv_timeout(watchdog) {
        Ok(log) => Watched::Done(log),
        Err(_) => {
            let c0 = process_cpu_ticks();
            match rx.recv_timeout(Duration::from_secs(2)) {
                Ok(log) => Watched::Done(log),
                Err(_) => {
                    let c1 = process_cpu_ticks();
                    Watched::Stalled { cpu_idle: c1.saturating_sub(c0) <= 2 }
                }
            }
        }
    }
}

/// Settings JSON for a small parallel run.
pub fn small_settings(preset: Preset, num_tune: u64, num_draws: u64, num_chains: u64, seed: u64, extra: &[(&str, J)]) -> J {
    let mut patches: Vec<(&str, J)> = vec![
        ("num_tune", json!(num_tune)),
        ("num_draws", json!(num_draws)),
        ("num_chains", json!(num_chains)),
        ("seed", json!(seed)),
        ("adapt_options.early_mass_matrix_switch_freq", json!(3)),
        ("adapt_options.mass_matrix_switch_freq", json!(5)),
        ("adapt_options.transform_update_freq", json!(4)),
    ];
    if preset.is_nuts() {
        patches.push(("maxdepth", json!(4)));
    } else {
        patches.push(("step_size", json!(0.3)));
        patches.push(("momentum_decoherence_length", json!(1.2)));
        if preset == Preset::FlowMclmc {
            patches.push(("adapt_options.step_size_settings.adapt_options.method", json!({"Fixed": 0.3})));
        }
    }
    for (p, v) in extra {
        patches.push((p, v.clone()));
    }
    crate::chains::settings_json(preset, &patches).0
}

pub fn hashes(records: &BTreeMap<u64, Vec<Record>>) -> BTreeMap<u64, Vec<u64>> {
    records.iter().map(|(c, v)| (*c, v.iter().map(|r| r.hash()).collect())).collect()
}
