//! C13 — failures in any chain surface as errors of the parallel sampler.

use std::collections::{BTreeMap, HashMap};
use std::time::Duration;

use serde_json::{Value as J, json};

use crate::Args;
use crate::c11;
use crate::chains::{ALL_PRESETS, Preset};
use crate::dens::{Fault, ModelFaults, Target};
use crate::par::{self, CallOutcome, Cmd, Final, RunSpec, Watched};
use crate::recorder::StorageFaults;
use crate::report::Report;
use crate::sched;
use crate::util::{Fnv, HRng, panic_site};

const KINDS: [&str; 13] = [
    "logp_never_finite",
    "init_first_logp_nonfinite",
    "init_first_attempts_invalid",
    "logp_unrecoverable",
    "logp_recoverable",
    "storage_record",
    "storage_finalize",
    "storage_init",
    "model_math_chain",
    "model_math_controller",
    "init_position_error",
    "init_all_invalid",
    "logp_unrecoverable_two_chains",
];

#[derive(Clone, Debug)]
struct FCase {
    preset: Preset,
    kind: String,
    num_tune: u64,
    num_draws: u64,
    num_chains: u64,
    cores: usize,
    seed: u64,
    dim: usize,
    /// faulty chains
    chains: Vec<i64>,
    /// where: "init" | "first" | "warmup" | "boundary" | "last"
    place: String,
    place_frac: f64,
    sched_seed: u64,
    yield_permille: u32,
    script: Vec<Cmd>,
    idx: u64,
}

fn fcase_json(c: &FCase) -> J {
    json!({"preset": c.preset.name(), "kind": c.kind, "num_tune": c.num_tune, "num_draws": c.num_draws, "num_chains": c.num_chains, "cores": c.cores,
        "seed": c.seed, "dim": c.dim, "chains": c.chains, "place": c.place, "place_frac": c.place_frac, "sched_seed": c.sched_seed,
        "yield_permille": c.yield_permille, "script": c.script.iter().map(|x| x.to_json()).collect::<Vec<_>>(), "idx": c.idx})
}

fn fcase_from_json(j: &J) -> FCase {
    FCase {
        preset: Preset::from_name(j["preset"].as_str().unwrap()).unwrap(),
        kind: j["kind"].as_str().unwrap().to_string(),
        num_tune: j["num_tune"].as_u64().unwrap(),
        num_draws: j["num_draws"].as_u64().unwrap(),
        num_chains: j["num_chains"].as_u64().unwrap(),
        cores: j["cores"].as_u64().unwrap() as usize,
        seed: j["seed"].as_u64().unwrap(),
        dim: j["dim"].as_u64().unwrap() as usize,
        chains: j["chains"].as_array().unwrap().iter().map(|v| v.as_i64().unwrap()).collect(),
        place: j["place"].as_str().unwrap().to_string(),
        place_frac: j["place_frac"].as_f64().unwrap(),
        sched_seed: j["sched_seed"].as_u64().unwrap(),
        yield_permille: j["yield_permille"].as_u64().unwrap() as u32,
        script: j["script"].as_array().unwrap().iter().map(Cmd::from_json).collect(),
        idx: j["idx"].as_u64().unwrap(),
    }
}

fn gen_fcase(seed: u64, idx: u64) -> FCase {
    let mut rng = HRng::new(seed).fork(idx);
    let preset = ALL_PRESETS[(idx % 6) as usize];
    let kind = KINDS[((idx / 6) % KINDS.len() as u64) as usize].to_string();
    let num_chains = rng.int_range(1, 6) as u64;
    let cores = if rng.bool(0.3) { (num_chains as usize).saturating_sub(1).max(1) } else { num_chains as usize + rng.below(3) as usize };
    let n_faulty = if kind.ends_with("two_chains") { 2.min(num_chains) } else if rng.bool(0.2) { rng.int_range(1, num_chains as i64) as u64 } else { 1 };
    let mut all: Vec<i64> = (0..num_chains as i64).collect();
    rng.shuffle(&mut all);
    let chains = all[..n_faulty as usize].to_vec();
    let place = *rng.choose(&["init", "first", "warmup", "boundary", "last", "research"]);
    // interleaved user commands
    let mut script = vec![];
    match rng.below(5) {
        0 => {}
        4 => {
            // a front end that polls progress while the run (and the failure) happens, and only then waits
            for _ in 0..(2 + rng.below(6)) {
                script.push(Cmd::SleepUs(200 + rng.below(4000)));
                script.push(Cmd::Progress);
            }
        }
        1 => {
            for _ in 0..(1 + rng.below(8)) {
                script.push(rng.choose(&[Cmd::Progress, Cmd::Flush, Cmd::Inspect, Cmd::Pause, Cmd::Resume]).clone());
            }
            script.push(Cmd::Resume);
        }
        2 => {
            script.push(Cmd::Wait(rng.below(5)));
            script.push(Cmd::Progress);
        }
        _ => {
            // direct abort at some point
            if rng.bool(0.5) {
                script.push(Cmd::SleepUs(rng.below(3000)));
            }
            script.push(Cmd::Abort);
        }
    }
    FCase {
        preset,
        kind,
        num_tune: rng.int_range(0, 12) as u64,
        num_draws: rng.int_range(1, 12) as u64,
        num_chains,
        cores,
        seed: rng.next_u64(),
        dim: rng.int_range(2, 4) as usize,
        chains,
        place: place.to_string(),
        place_frac: rng.unif(),
        sched_seed: rng.next_u64(),
        yield_permille: *rng.choose(&[0u32, 400]),
        script,
        idx,
    }
}

fn base_spec(c: &FCase) -> RunSpec {
    let mut extra: Vec<(&str, J)> = vec![];
    if c.kind == "logp_recoverable" && c.preset.is_nuts() {
        // with an adaptive step size a recoverable fault can land on the re-evaluation of the current point of the
        // re-run search, which is the known C05 finding; a fixed step size has no search
        extra.push(("adapt_options.step_size_settings.adapt_options.method", json!({"Fixed": 0.4})));
    }
    let settings = par::small_settings(c.preset, c.num_tune, c.num_draws, c.num_chains, c.seed, &extra);
    let mut s = RunSpec::new(c.preset, settings, Target::iso(c.dim, 0.2), c.cores);
    s.sched_seed = c.sched_seed;
    s.yield_permille = c.yield_permille;
    s.log_events = true;
    s.final_wait_ms = 15_000;
    s
}

fn run_fcase(report: &mut Report, c: &FCase, stallcheck: bool) -> bool {
    report.eval();
    let pname = c.preset.name();
    let replay = fcase_json(c);
    let sig = |what: &str| format!("C13:{pname}:{}:{what}", c.kind);
    let total = c.num_tune + c.num_draws;
    // a fault-free run tells how many density evaluations each chain makes (to place faults at the first / last draw)
    let mut spec = base_spec(c);
    let needs_evals = c.kind.starts_with("logp");
    let mut evals: HashMap<i64, u64> = HashMap::new();
    let mut first_draw_eval: HashMap<i64, u64> = HashMap::new();
    let mut revisits: HashMap<i64, Vec<u64>> = HashMap::new();
    if needs_evals {
        let mut probe = spec.clone();
        probe.keep_eval_records = true;
        match par::run_watched(&probe, Duration::from_secs(60)) {
            Watched::Done(l) if matches!(l.fin, Final::Trace(_)) => {
                evals = l.density_evals.clone();
                revisits = l.revisit_evals.clone();
                for (ch, recs) in &l.records {
                    // evaluations before the first draw = total - sum of steps (NUTS) is not exact; use a fraction instead
                    let steps: u64 = recs.iter().map(|r| r.num_steps).sum();
                    first_draw_eval.insert(*ch as i64, evals.get(&(*ch as i64)).copied().unwrap_or(0).saturating_sub(steps));
                }
            }
            Watched::Stalled { .. } => {
                report.inconclusive("fault-free run stalled");
                return false;
            }
            _ => {
                report.inconclusive("fault-free run failed");
                return true;
            }
        }
    }
    let place_eval = |ch: i64| -> u64 {
        let n = evals.get(&ch).copied().unwrap_or(1).max(1);
        let f0 = first_draw_eval.get(&ch).copied().unwrap_or(0).min(n - 1);
        let span = n - f0;
        match c.place.as_str() {
            "init" => (c.place_frac * f0 as f64) as u64,
            "first" => f0,
            "warmup" => f0 + (c.place_frac * span as f64 * c.num_tune as f64 / total.max(1) as f64) as u64,
            "boundary" => f0 + (span as f64 * c.num_tune as f64 / total.max(1) as f64) as u64,
            // an evaluation inside the re-run of the step size search (it starts by re-evaluating the current point);
            // without one in this run: somewhere in warmup
            "research" => match revisits.get(&ch).and_then(|v| v.iter().find(|k| **k >= f0.max(1))) {
                Some(k) => k + (c.place_frac * 3.0) as u64,
                None => f0 + (c.place_frac * span as f64 * c.num_tune as f64 / total.max(1) as f64) as u64,
            },
            _ => n - 1,
        }
        .min(n - 1)
    };
    let place_seq = || -> u64 {
        match c.place.as_str() {
            "init" | "first" => 0,
            "warmup" => (c.place_frac * c.num_tune as f64) as u64,
            "boundary" => c.num_tune.min(total - 1),
            _ => total - 1,
        }
        .min(total - 1)
    };
    let mut expect_err = true;
    match c.kind.as_str() {
        "logp_unrecoverable" | "logp_unrecoverable_two_chains" => {
            for ch in &c.chains {
                spec.plans.insert(*ch, BTreeMap::from([(place_eval(*ch), Fault::Fatal)]));
            }
        }
        "logp_recoverable" => {
            expect_err = false;
            for ch in &c.chains {
                let n = evals.get(ch).copied().unwrap_or(1).max(1);
                let mut rng = HRng::new(c.seed ^ *ch as u64);
                let mut plan = BTreeMap::new();
                // never at the evaluations of the initial point (set_position may refuse an invalid start; the
                // sampler then retries with a new start, which changes nothing for this property)
                for _ in 0..(1 + rng.below(6)) {
                    plan.insert(first_draw_eval.get(ch).copied().unwrap_or(0) + rng.below(n), Fault::Recoverable);
                }
                plan.insert(place_eval(*ch).max(first_draw_eval.get(ch).copied().unwrap_or(0)), Fault::Recoverable);
                spec.plans.insert(*ch, plan);
            }
        }
        "storage_record" => {
            spec.storage_faults = StorageFaults { record_fail: c.chains.iter().map(|ch| (*ch as u64, place_seq())).collect(), ..Default::default() };
        }
        "storage_finalize" => {
            spec.storage_faults = StorageFaults { finalize_fail: c.chains.iter().map(|ch| *ch as u64).collect(), ..Default::default() };
        }
        "storage_init" => {
            spec.storage_faults = StorageFaults { init_fail: c.chains.iter().map(|ch| *ch as u64).collect(), ..Default::default() };
        }
        "init_first_logp_nonfinite" => {
            // the first starting points have a finite gradient but a NaN / infinite log density: they are refused after
            // the adaptation has already seen them; the chain retries and the run must succeed
            expect_err = false;
            let f = if c.place_frac < 0.5 { Fault::NanLogp } else { Fault::NegInfLogp };
            let k = 1 + (c.place_frac * 3.0) as u64;
            for ch in &c.chains {
                spec.plans.insert(*ch, (0..k).map(|i| (i, f)).collect());
            }
        }
        "logp_never_finite" => {
            // a density without any point of finite log density for these chains (finite gradients): every starting
            // point is invalid, the run must fail with "all initialisation points failed"
            let f = if c.place_frac < 0.5 { Fault::NanLogp } else { Fault::NegInfLogp };
            for ch in &c.chains {
                spec.plans.insert(*ch, (0..20_000u64).map(|k| (k, f)).collect());
            }
        }
        "model_math_chain" => spec.model_faults = ModelFaults { math_fail_chains: c.chains.clone(), ..Default::default() },
        "model_math_controller" => spec.model_faults = ModelFaults { math_fail_chains: vec![-1], ..Default::default() },
        "init_position_error" => spec.model_faults = ModelFaults { init_fail_chains: c.chains.clone(), ..Default::default() },
        "init_all_invalid" => spec.model_faults = ModelFaults { init_invalid_chains: c.chains.clone(), ..Default::default() },
        "init_first_attempts_invalid" => {
            // a bad starting point is not a failure: the chain retries and the run must succeed
            expect_err = false;
            let k = 1 + (c.place_frac * 6.0) as u64;
            spec.model_faults = ModelFaults { init_invalid_first: c.chains.iter().map(|ch| (*ch, k)).collect(), ..Default::default() };
        }
        _ => {}
    }
    spec.script = c.script.clone();
    let log = match par::run_watched(&spec, Duration::from_secs(30)) {
        Watched::Done(l) => l,
        Watched::Stalled { cpu_idle } => {
            if stallcheck {
                std::process::exit(3);
            }
            if cpu_idle {
                let (all, any) = c11::reproduce_stall("C13", &replay);
                if all {
                    report.violation(sig("hang"), "a client call did not return within 30 s with an idle process; reproduced in a fresh process".to_string(), replay);
                } else {
                    report.inconclusive(if any { "stall reproduced only once" } else { "stall not reproduced" });
                }
            } else {
                report.inconclusive("watchdog expired while the process was busy");
            }
            return false;
        }
    };
    let aborted = log.calls.iter().any(|x| x.cmd == Cmd::Abort && !matches!(x.outcome, CallOutcome::Skipped));
    // no client call may panic, whatever happened inside the sampler
    for call in &log.calls {
        if let CallOutcome::Err(e) = &call.outcome {
            if e.starts_with("panic:") {
                report.violation(sig(&format!("client_call_panicked:{}", call.cmd.name().split('(').next().unwrap())), e.clone(), replay.clone());
            }
        }
    }
    let mut outcome = "";
    match &log.fin {
        Final::ClientPanic(p) => {
            report.violation(sig("client_call_panicked"), p.clone(), replay.clone());
            outcome = "panic";
        }
        Final::NotFinished => {
            report.violation(sig("run_did_not_finish"), "the sampler neither finished nor reported the failure within the wait budget".to_string(), replay.clone());
        }
        Final::Trace(t) => {
            outcome = "trace";
            if expect_err {
                let place_tag = if c.place == "init" { "during_initialisation" } else { "during_sampling" };
                report.violation(sig(&format!("failure_reported_as_success:{place_tag}")), format!("wait_timeout returned a finished trace although {} was injected in chains {:?} at {}", c.kind, c.chains, c.place), replay.clone());
            } else {
                // recoverable errors never terminate a chain
                for ch in 0..c.num_chains {
                    let n = log.records.get(&ch).map(|v| v.len()).unwrap_or(0);
                    if n != total as usize {
                        report.violation(sig("chain_terminated_by_recoverable_error"), format!("chain {ch} recorded {n} of {total} draws"), replay.clone());
                    }
                }
                let _ = t;
            }
        }
        Final::Err(e, _) => {
            outcome = "err";
            if !expect_err {
                let what = if c.kind == "init_first_attempts_invalid" { "retried_initialisation_reported_as_failure" } else { "recoverable_error_reported_as_failure" };
                report.violation(sig(what), e.clone(), replay.clone());
            }
        }
        Final::Aborted(..) | Final::AbortErr(_) => {
            outcome = "aborted";
            // abort() does not read the result channel by design: whether it reports the error is recorded, not judged
            report.count(if matches!(log.fin, Final::AbortErr(_)) || matches!(&log.fin, Final::Aborted(Some(_), _)) { "abort_reported_error" } else { "abort_returned_prefix_trace" }, 1);
        }
    }
    let _ = aborted;
    report.count(&format!("outcome_{outcome}"), 1);
    let mut h = Fnv::new();
    h.str(pname).str(&c.kind).str(&c.place).u64((c.chains.len() > 1) as u64).u64((c.num_chains as usize > c.cores) as u64).str(outcome);
    report.nontrivial(h.finish());
    if report.samples.len() < 3 {
        report.sample(json!({"case": replay, "final": format!("{:?}", log.fin).chars().take(200).collect::<String>(),
            "calls": log.calls.iter().map(|c| c.cmd.name()).collect::<Vec<_>>()}));
    }
    true
}

/// A real storage backend on a device that is full: the CSV files of the faulty chains are symbolic links to /dev/full,
/// so that every write the operating system sees fails with ENOSPC - for a short run that is the flush at
/// finalisation, for a long one a write in the middle of sampling. The run must end with an error.
fn csv_device_full(report: &mut Report, seed: u64, idx: u64) {
    use nuts_rs::{CsvConfig, DiagNutsSettings, Sampler, SamplerWaitResult};
    report.eval();
    let mut rng = HRng::new(seed).fork(0xC5F + idx);
    if !std::path::Path::new("/dev/full").exists() {
        report.inconclusive("no /dev/full on this system");
        return;
    }
    // half of the cases: several chains and the *first* one fails while the last is healthy (an error that is
    // overwritten by a later healthy chain when the per-chain results are combined stays visible only there)
    let first_fails = (idx / 2) % 2 == 0;
    let num_chains = if first_fails { rng.int_range(2, 4) as u64 } else { rng.int_range(1, 4) as u64 };
    let faulty = if first_fails { 0 } else { rng.below(num_chains) };
    let long = idx % 2 == 1;
    let (num_tune, num_draws) = if long { (20u64, 600u64) } else { (rng.int_range(0, 10) as u64, rng.int_range(1, 12) as u64) };
    let dim = if long { 12 } else { 2 };
    let dir = match tempfile::tempdir() {
        Ok(d) => d,
        Err(_) => {
            report.inconclusive("no temporary directory");
            return;
        }
    };
    let out = dir.path().join("out");
    let _ = std::fs::create_dir_all(&out);
    if std::os::unix::fs::symlink("/dev/full", out.join(format!("chain_{faulty}.csv"))).is_err() {
        report.inconclusive("could not create the symbolic link");
        return;
    }
    let replay = json!({"kind": "csv_device_full", "seed": seed, "idx": idx});
    let settings: DiagNutsSettings = match serde_json::from_value(par::small_settings(Preset::DiagNuts, num_tune, num_draws, num_chains, rng.next_u64(), &[])) {
        Ok(s) => s,
        Err(_) => {
            report.inconclusive("settings rejected");
            return;
        }
    };
    let model = crate::dens::VModel::new(Target::iso(dim, 0.2));
    let r = crate::util::guard(move || -> Result<String, String> {
        let mut sampler = Sampler::new(model, settings, CsvConfig::new(&out), 4, None).map_err(|e| format!("new: {e:#}"))?;
        let t0 = std::time::Instant::now();
        loop {
            match sampler.wait_timeout(Duration::from_millis(200)) {
                SamplerWaitResult::Trace(_) => return Ok("trace".into()),
                SamplerWaitResult::Err(e, _) => return Ok(format!("err: {e:#}")),
                SamplerWaitResult::Timeout(s) => {
                    if t0.elapsed() > Duration::from_secs(60) {
                        return Err("timeout".into());
                    }
                    sampler = s;
                }
            }
        }
    });
    let mut h = Fnv::new();
    h.str("csv_device_full").u64(long as u64).u64(num_chains);
    report.nontrivial(h.finish());
    match r {
        Err(p) => report.violation(format!("C13:csv_device_full:client_call_panicked:{}", panic_site(&p)), p, replay),
        Ok(Err(e)) if e == "timeout" => report.inconclusive("csv run did not finish within 60 s"),
        Ok(Err(e)) => report.violation("C13:csv_device_full:sampler_not_started".to_string(), e, replay),
        Ok(Ok(res)) if res == "trace" => report.violation(
            format!("C13:csv_device_full:failure_reported_as_success:{}", if long { "write_during_sampling" } else { "flush_at_finalisation" }),
            format!("chain {faulty} of {num_chains} writes to a full device ({} draws, dim {dim}) but wait_timeout returned a trace", num_tune + num_draws),
            replay,
        ),
        Ok(Ok(_)) => report.count("storage_device_errors_surfaced", 1),
    }
}

pub fn run(args: &Args, report: &mut Report) {
    report.rule = "cases = preset x fault kind (unrecoverable logp error in one / two / several chains, recoverable logp errors, storage record_sample / \
        finalize / initialize error, Model::math error in a chain / in the controller, init_position error, all 500 initialisations invalid, only the first few initial points invalid) x place \
        (initialisation, first draw, warmup, warmup/sampling boundary, last draw) x faulty chain(s) x num_chains vs num_cores x schedule perturbation x \
        interleaved user commands (storm, wait, direct abort, progress polling); plus the real CSV backend writing to a full device (error at the \
        final flush / in the middle of sampling); distinct = (preset, kind, place, several chains, chains > cores, outcome)".into();
    report.assumptions.push("a direct abort() is only required not to panic or hang; whether it returns Err or a prefix trace is recorded, not judged".into());
    report.assumptions.push("recoverable-error cases on NUTS presets run with a fixed step size (the re-run step size search has the known C05 finding)".into());
    sched::install();
    let seed = args.seed ^ 0xC13;
    if let Some(r) = &args.replay {
        if r.get("kind").and_then(|k| k.as_str()) == Some("csv_device_full") {
            csv_device_full(report, r["seed"].as_u64().unwrap(), r["idx"].as_u64().unwrap());
            return;
        }
        let stallcheck = args.mode.as_deref() == Some("stallcheck");
        for _ in 0..(if stallcheck { 40 } else { 1 }) {
            run_fcase(report, &fcase_from_json(r), stallcheck);
        }
        return;
    }
    // a real backend whose device fails
    for i in 0..report.size(24, 400) {
        csv_device_full(report, seed, i);
    }
    let n = report.size(360, 40_000);
    for i in 0..n {
        if c11::too_many_hangs(report) {
            report.inconclusive("remaining cases not run after repeated unfinished runs");
            break;
        }
        if !run_fcase(report, &gen_fcase(seed, i), false) {
            report.inconclusive("remaining cases not run after a stalled run");
            break;
        }
    }
}
