//! C19 — settings survive serialisation and reproduce the same chain.

use std::sync::Arc;

use nuts_rs::verif::StorageConfig;
use nuts_rs::{
    DiagMclmcSettings, DiagNutsSettings, FlowMclmcSettings, FlowNutsSettings, LowRankMclmcSettings,
    LowRankNutsSettings, Settings, ZarrConfig,
};
use serde_json::{Value as J, json};

use crate::Args;
use crate::chains::{ALL_PRESETS, Preset, build_chain, start_point};
use crate::dens::{Logged, Target};
use crate::report::Report;
use crate::script::ScriptMath;
use crate::util::{Fnv, HRng};

fn random_f64(rng: &mut HRng) -> f64 {
    match rng.below(8) {
        0 => rng.range(-1.0, 1.0),
        1 => rng.log_range(1e-300, 1e300),
        2 => -rng.log_range(1e-300, 1e300),
        3 => f64::from_bits(rng.below(1 << 52) + 1), // subnormal
        4 => *rng.choose(&[0.0, 1.0, 0.1, 0.3, 1e-5, 1e22, 1e23, 5e-324, f64::MAX, f64::MIN_POSITIVE, std::f64::consts::PI]),
        5 => (rng.below(2000) as f64) / 10.0,
        _ => {
            // arbitrary finite bit pattern
            loop {
                let x = f64::from_bits(rng.next_u64());
                if x.is_finite() {
                    break x;
                }
            }
        }
    }
}

fn random_u64(rng: &mut HRng) -> u64 {
    match rng.below(5) {
        0 => rng.below(10),
        1 => rng.below(100_000),
        2 => u64::MAX - rng.below(3),
        3 => 1u64 << rng.below(64),
        _ => rng.next_u64(),
    }
}

/// Randomise every leaf of a settings JSON value in place (type preserving).
fn randomise(j: &mut J, path: &str, rng: &mut HRng, leaves: &mut u64) {
    match j {
        J::Object(map) => {
            let keys: Vec<String> = map.keys().cloned().collect();
            for k in keys {
                let p = if path.is_empty() { k.clone() } else { format!("{path}.{k}") };
                // enum encoded as {"Fixed": x}
                if k == "method" {
                    *leaves += 1;
                    let v = match rng.below(3) {
                        0 => json!("DualAverage"),
                        1 => json!("Adam"),
                        _ => json!({"Fixed": random_f64(rng)}),
                    };
                    map.insert(k, v);
                    continue;
                }
                // Option<f64> fields
                if k == "jitter" || k == "target_integration_time" {
                    *leaves += 1;
                    let v = if rng.bool(0.3) { J::Null } else { json!(random_f64(rng)) };
                    map.insert(k, v);
                    continue;
                }
                randomise(map.get_mut(&k).unwrap(), &p, rng, leaves);
            }
        }
        J::Bool(b) => {
            *leaves += 1;
            *b = rng.bool(0.5)
        }
        J::Number(n) => {
            *leaves += 1;
            if n.is_f64() {
                *j = json!(random_f64(rng));
            } else {
                *j = json!(random_u64(rng));
            }
        }
        J::String(s) => {
            *leaves += 1;
            let last = path.rsplit('.').next().unwrap_or("");
            let opts: &[&str] = match (last, s.as_str()) {
                ("trajectory_kind", "Euclidean" | "ExactNormal") if !path.is_empty() => {
                    // both enums share the variant name "Euclidean"; decided by the caller through `mclmc`
                    &[]
                }
                _ => &[],
            };
            let _ = opts;
        }
        _ => {}
    }
}

fn set_trajectory_kind(j: &mut J, preset: Preset, rng: &mut HRng) {
    let v = if preset.is_nuts() {
        *rng.choose(&["Euclidean", "ExactNormal", "Microcanonical"])
    } else {
        *rng.choose(&["Microcanonical", "Euclidean", "EuclideanEarlyThenMicrocanonical"])
    };
    j.as_object_mut().unwrap().insert("trajectory_kind".into(), json!(v));
}

/// (to_value after from_value, to_string, to_string after from_str(to_string)) or an error text.
fn round_trip(preset: Preset, j: &J) -> Result<(J, String, String), String> {
    fn go<S: Settings>(j: &J) -> Result<(J, String, String), String> {
        let s: S = serde_json::from_value(j.clone()).map_err(|e| format!("from_value: {e}"))?;
        let back = serde_json::to_value(s).map_err(|e| format!("to_value: {e}"))?;
        let txt = serde_json::to_string(&s).map_err(|e| format!("to_string: {e}"))?;
        let s2: S = serde_json::from_str(&txt).map_err(|e| format!("from_str: {e}"))?;
        let txt2 = serde_json::to_string(&s2).map_err(|e| format!("to_string(2): {e}"))?;
        Ok((back, txt, txt2))
    }
    match preset {
        Preset::DiagNuts => go::<DiagNutsSettings>(j),
        Preset::LowRankNuts => go::<LowRankNutsSettings>(j),
        Preset::FlowNuts => go::<FlowNutsSettings>(j),
        Preset::DiagMclmc => go::<DiagMclmcSettings>(j),
        Preset::LowRankMclmc => go::<LowRankMclmcSettings>(j),
        Preset::FlowMclmc => go::<FlowMclmcSettings>(j),
    }
}

fn first_diff(a: &J, b: &J, path: String) -> Option<String> {
    match (a, b) {
        (J::Object(x), J::Object(y)) => {
            for (k, v) in x {
                match y.get(k) {
                    None => return Some(format!("{path}.{k} missing after round trip")),
                    Some(w) => {
                        if let Some(d) = first_diff(v, w, format!("{path}.{k}")) {
                            return Some(d);
                        }
                    }
                }
            }
            for k in y.keys() {
                if !x.contains_key(k) {
                    return Some(format!("{path}.{k} appeared after round trip"));
                }
            }
            None
        }
        _ => {
            if a == b { None } else { Some(format!("{path}: {a} -> {b}")) }
        }
    }
}

fn field_of(diff: &str) -> String {
    diff.split([':', ' ']).next().unwrap_or("").trim_start_matches('.').to_string()
}

fn roundtrip_case(report: &mut Report, preset: Preset, seed: u64) {
    report.eval();
    let mut rng = HRng::new(seed);
    let mut j = preset.default_json();
    let mut leaves = 0;
    randomise(&mut j, "", &mut rng, &mut leaves);
    set_trajectory_kind(&mut j, preset, &mut rng);
    let pname = preset.name();
    let replay = json!({"kind": "roundtrip", "preset": pname, "seed": seed});
    report.count("settings_fields_randomised", leaves);
    let mut h = Fnv::new();
    h.str(pname).str(&j.to_string());
    report.nontrivial(h.finish());
    match round_trip(preset, &j) {
        Err(e) => {
            report.violation(format!("C19:{pname}:roundtrip_error"), format!("{e}; settings {j}"), replay);
        }
        Ok((back, txt, txt2)) => {
            if let Some(d) = first_diff(&j, &back, String::new()) {
                report.violation(format!("C19:{pname}:value_roundtrip_differs:{}", field_of(&d)), d, replay.clone());
            }
            if txt != txt2 {
                let a: J = serde_json::from_str(&txt).unwrap_or(J::Null);
                let b: J = serde_json::from_str(&txt2).unwrap_or(J::Null);
                let d = first_diff(&a, &b, String::new()).unwrap_or_else(|| "texts differ".into());
                report.violation(format!("C19:{pname}:string_roundtrip_differs:{}", field_of(&d)), d, replay.clone());
            }
        }
    }
    if report.samples.is_empty() {
        report.sample(json!({"preset": pname, "randomised_settings": j}));
    }
}

/// Semantically valid random settings (so that a chain can run).
fn valid_settings(preset: Preset, rng: &mut HRng) -> J {
    let mut j = preset.default_json();
    let so = "adapt_options.step_size_settings";
    let mut p: Vec<(String, J)> = vec![
        ("num_tune".into(), json!(rng.int_range(0, 40))),
        ("num_draws".into(), json!(20)),
        ("seed".into(), json!(rng.next_u64())),
        ("num_chains".into(), json!(rng.int_range(1, 5))),
        ("store_gradient".into(), json!(rng.bool(0.5))),
        ("store_unconstrained".into(), json!(rng.bool(0.5))),
        ("store_transformed".into(), json!(rng.bool(0.5))),
        ("store_divergences".into(), json!(rng.bool(0.5))),
        ("max_energy_error".into(), json!(rng.log_range(5.0, 2000.0))),
        (format!("{so}.target_accept"), json!(rng.range(0.5, 0.95))),
        (format!("{so}.initial_step"), json!(rng.log_range(0.01, 1.0))),
        (format!("{so}.jitter"), if rng.bool(0.3) { J::Null } else { json!(rng.range(0.0, 0.5)) }),
        (format!("{so}.adapt_options.dual_average.k"), json!(rng.range(0.5, 1.0))),
        (format!("{so}.adapt_options.dual_average.t0"), json!(rng.range(1.0, 20.0))),
        (format!("{so}.adapt_options.dual_average.gamma"), json!(rng.log_range(0.01, 0.5))),
        (format!("{so}.adapt_options.dual_average.max_step_size"), json!(rng.range(0.5, 6.0))),
        (format!("{so}.adapt_options.adam.beta1"), json!(rng.range(0.5, 0.95))),
        (format!("{so}.adapt_options.adam.beta2"), json!(rng.range(0.9, 0.9999))),
        (format!("{so}.adapt_options.adam.epsilon"), json!(rng.log_range(1e-10, 1e-4))),
        (format!("{so}.adapt_options.adam.learning_rate"), json!(rng.log_range(0.005, 0.2))),
        ("adapt_options.step_size_window".into(), json!(rng.range(0.0, 0.5))),
        ("adapt_options.early_window".into(), json!(rng.range(0.0, 0.8))),
        ("adapt_options.mass_matrix_switch_freq".into(), json!(rng.int_range(1, 30))),
        ("adapt_options.early_mass_matrix_switch_freq".into(), json!(rng.int_range(1, 12))),
        ("adapt_options.mass_matrix_update_freq".into(), json!(rng.int_range(1, 10))),
        ("adapt_options.mass_matrix_window_growth".into(), json!(rng.range(1.0, 2.0))),
        ("adapt_options.mass_matrix_options.store_mass_matrix".into(), json!(rng.bool(0.5))),
        ("adapt_options.mass_matrix_options.use_grad_based_estimate".into(), json!(rng.bool(0.7))),
        ("adapt_options.mass_matrix_options.gamma".into(), json!(rng.log_range(1e-7, 1e-2))),
        ("adapt_options.mass_matrix_options.eigval_cutoff".into(), json!(rng.range(1.2, 4.0))),
        ("adapt_options.transform_update_freq".into(), json!(rng.int_range(2, 30))),
        ("adapt_options.use_orbit_for_training".into(), json!(rng.bool(0.5))),
        ("adapt_options.transform_train_max_energy_error".into(), json!(rng.log_range(1.0, 100.0))),
    ];
    let method = if preset == Preset::FlowMclmc { 2 } else { rng.below(3) };
    p.push((
        format!("{so}.adapt_options.method"),
        match method {
            0 => json!("DualAverage"),
            1 => json!("Adam"),
            _ => json!({"Fixed": rng.log_range(0.05, 0.5)}),
        },
    ));
    if preset.is_nuts() {
        p.push(("maxdepth".into(), json!(rng.int_range(1, 6))));
        p.push(("mindepth".into(), json!(rng.int_range(0, 2))));
        p.push(("check_turning".into(), json!(rng.bool(0.85))));
        p.push(("extra_doublings".into(), json!(rng.int_range(0, 1))));
        p.push(("target_integration_time".into(), if rng.bool(0.7) { J::Null } else { json!(rng.range(0.5, 4.0)) }));
        p.push(("trajectory_kind".into(), json!(*rng.choose(&["Euclidean", "ExactNormal"]))));
    } else {
        p.push(("step_size".into(), json!(rng.log_range(0.05, 0.5))));
        p.push(("momentum_decoherence_length".into(), json!(rng.range(0.5, 3.0))));
        p.push(("subsample_frequency".into(), json!(rng.range(0.1, 1.0))));
        p.push(("dynamic_step_size".into(), json!(rng.bool(0.5))));
        p.push(("trajectory_switch_fraction".into(), json!(rng.range(0.0, 1.0))));
        p.push(("trajectory_kind".into(), json!(*rng.choose(&["Microcanonical", "Euclidean", "EuclideanEarlyThenMicrocanonical"]))));
    }
    for (path, v) in p {
        crate::chains::patch(&mut j, &path, v);
    }
    j
}

fn chain_trace(preset: Preset, j: &J, target: &Target, start: &[f64], seed: u64, n: usize) -> Result<Vec<u64>, String> {
    let math = ScriptMath::new(Logged::new(target.clone(), false));
    let mut chain = build_chain(preset, j, math, seed, 3).map_err(|e| format!("build: {e}"))?;
    chain.set_position(start).map_err(|e| format!("set_position: {e}"))?;
    let mut hashes = vec![];
    for d in 0..n {
        let o = chain.draw().map_err(|e| format!("draw {d}: {e}"))?;
        let mut h = Fnv::new();
        h.f64s(&o.position);
        h.u64(o.progress.diverging as u64).u64(o.progress.tuning as u64).f64(o.progress.step_size).u64(o.progress.num_steps);
        for (name, v) in &o.stats {
            h.str(name);
            h.str(&format!("{v:?}"));
        }
        hashes.push(h.finish());
    }
    Ok(hashes)
}

fn chain_case(report: &mut Report, preset: Preset, seed: u64) {
    report.eval();
    let pname = preset.name();
    let mut rng = HRng::new(seed);
    let j = valid_settings(preset, &mut rng);
    let replay = json!({"kind": "chain", "preset": pname, "seed": seed});
    let (back, txt, _) = match round_trip(preset, &j) {
        Ok(v) => v,
        Err(e) => {
            report.violation(format!("C19:{pname}:roundtrip_error"), format!("{e}; settings {j}"), replay);
            return;
        }
    };
    let via_text: J = serde_json::from_str(&txt).unwrap_or(J::Null);
    let target = Target::scaled(&mut rng, 3, 20.0);
    let start = start_point(&target, &mut rng);
    let cseed = rng.next_u64();
    let n = 45;
    let run = |j: &J| crate::util::guard(|| chain_trace(preset, j, &target, &start, cseed, n)).unwrap_or_else(|p| Err(format!("panic: {p}")));
    let a = run(&j);
    let b = run(&back);
    let c = run(&via_text);
    let mut h = Fnv::new();
    h.str(pname).str(&txt);
    report.nontrivial(h.finish());
    match (&a, &b, &c) {
        (Ok(a), Ok(b), Ok(c)) => {
            report.count("chain_draws_compared", 2 * n as u64);
            for (which, other) in [("value", b), ("string", c)] {
                if let Some(d) = (0..n).find(|&i| a[i] != other[i]) {
                    report.violation(
                        format!("C19:{pname}:chain_differs_after_{which}_roundtrip"),
                        format!("first differing draw {d}; settings {txt}"),
                        replay.clone(),
                    );
                }
            }
        }
        (Err(ea), _, _) => {
            // the original settings themselves do not give a working chain: outside this property
            report.inconclusive("original settings did not give a working chain");
            if std::env::var("VERIF_TIMING").is_ok() {
                eprintln!("chain failed: {ea} settings {txt}");
            }
        }
        (Ok(_), eb, ec) => {
            report.violation(
                format!("C19:{pname}:roundtripped_settings_fail"),
                format!("original settings work, round-tripped fail: {:?} {:?}", eb.as_ref().err(), ec.as_ref().err()),
                replay,
            );
        }
    }
}

fn zarr_case(report: &mut Report, preset: Preset, seed: u64) {
    // the trace group is the store root or a (nested) group below it: the attribute belongs to the trace group
    fn go<S: Settings>(j: &J, group: &str) -> Result<(J, J), String> {
        let s: S = serde_json::from_value(j.clone()).map_err(|e| format!("from_value: {e}"))?;
        let store = Arc::new(zarrs::storage::store::MemoryStore::new());
        let math = ScriptMath::new(Logged::new(Target::iso(3, 0.0), false));
        let mut cfg = ZarrConfig::new(store.clone());
        if group != "/" {
            cfg = cfg.with_group_path(group);
        }
        let _trace = cfg.new_trace(&s, &math).map_err(|e| format!("new_trace: {e}"))?;
        let g = zarrs::group::Group::open(store.clone(), group).map_err(|e| format!("open group {group}: {e}"))?;
        let attr = g.attributes().get("sampler_settings").cloned().unwrap_or(J::Null);
        Ok((serde_json::to_value(s).unwrap(), attr))
    }
    report.eval();
    let pname = preset.name();
    let mut rng = HRng::new(seed);
    let j = valid_settings(preset, &mut rng);
    let group = *rng.choose(&["/", "/grp", "/runs/a", "/a/b/c"]);
    let replay = json!({"kind": "zarr", "preset": pname, "seed": seed, "group": group});
    let r = match preset {
        Preset::DiagNuts => go::<DiagNutsSettings>(&j, group),
        Preset::LowRankNuts => go::<LowRankNutsSettings>(&j, group),
        Preset::FlowNuts => go::<FlowNutsSettings>(&j, group),
        Preset::DiagMclmc => go::<DiagMclmcSettings>(&j, group),
        Preset::LowRankMclmc => go::<LowRankMclmcSettings>(&j, group),
        Preset::FlowMclmc => go::<FlowMclmcSettings>(&j, group),
    };
    match r {
        Err(e) => report.violation(format!("C19:{pname}:zarr_metadata_error"), e, replay),
        Ok((want, got)) => {
            report.count("zarr_attributes_compared", 1);
            if group != "/" {
                report.count("zarr_attributes_compared_in_sub_group", 1);
            }
            if let Some(d) = first_diff(&want, &got, String::new()) {
                report.violation(format!("C19:{pname}:zarr_settings_attribute_differs:{}", field_of(&d)), d, replay);
            }
        }
    }
}

// ── struct-literal cases: every Rust field set explicitly (catches serde `skip` / `default` attributes) ─────

use nuts_rs::verif::DualAverageOptions;
use nuts_rs::{
    AdamOptions, DiagAdaptExpSettings, EuclideanAdaptOptions, FlowSettings, KineticEnergyKind, LowRankSettings,
    MclmcSettings, MclmcTrajectoryKind, NutsSettings, StepSizeAdaptMethod, StepSizeAdaptOptions, StepSizeSettings,
};

fn lit_step(rng: &mut HRng) -> StepSizeSettings {
    StepSizeSettings {
        target_accept: random_f64(rng),
        initial_step: random_f64(rng),
        jitter: if rng.bool(0.3) { None } else { Some(random_f64(rng)) },
        adapt_options: StepSizeAdaptOptions {
            method: match rng.below(3) {
                0 => StepSizeAdaptMethod::DualAverage,
                1 => StepSizeAdaptMethod::Adam,
                _ => StepSizeAdaptMethod::Fixed(random_f64(rng)),
            },
            dual_average: DualAverageOptions { k: random_f64(rng), t0: random_f64(rng), gamma: random_f64(rng), max_step_size: random_f64(rng) },
            adam: AdamOptions { beta1: random_f64(rng), beta2: random_f64(rng), epsilon: random_f64(rng), learning_rate: random_f64(rng) },
        },
    }
}

fn lit_euclid<S: std::fmt::Debug + Default>(rng: &mut HRng, mm: S) -> EuclideanAdaptOptions<S> {
    EuclideanAdaptOptions {
        step_size_settings: lit_step(rng),
        mass_matrix_options: mm,
        early_window: random_f64(rng),
        step_size_window: random_f64(rng),
        mass_matrix_switch_freq: random_u64(rng),
        early_mass_matrix_switch_freq: random_u64(rng),
        mass_matrix_update_freq: random_u64(rng),
        mass_matrix_window_growth: random_f64(rng),
    }
}

fn lit_diag(rng: &mut HRng) -> DiagAdaptExpSettings {
    DiagAdaptExpSettings { store_mass_matrix: rng.bool(0.5), use_grad_based_estimate: rng.bool(0.5) }
}

fn lit_lowrank(rng: &mut HRng) -> LowRankSettings {
    LowRankSettings { store_mass_matrix: rng.bool(0.5), gamma: random_f64(rng), eigval_cutoff: random_f64(rng) }
}

fn lit_flow(rng: &mut HRng) -> FlowSettings {
    FlowSettings {
        step_size_window: random_f64(rng),
        transform_update_freq: random_u64(rng),
        use_orbit_for_training: rng.bool(0.5),
        step_size_settings: lit_step(rng),
        transform_train_max_energy_error: random_f64(rng),
    }
}

fn lit_nuts<A: std::fmt::Debug + Copy + Default + serde::Serialize>(rng: &mut HRng, a: A) -> NutsSettings<A> {
    NutsSettings {
        num_tune: random_u64(rng),
        num_draws: random_u64(rng),
        maxdepth: random_u64(rng),
        mindepth: random_u64(rng),
        store_gradient: rng.bool(0.5),
        store_unconstrained: rng.bool(0.5),
        store_transformed: rng.bool(0.5),
        max_energy_error: random_f64(rng),
        store_divergences: rng.bool(0.5),
        adapt_options: a,
        check_turning: rng.bool(0.5),
        target_integration_time: if rng.bool(0.3) { None } else { Some(random_f64(rng)) },
        trajectory_kind: *rng.choose(&[KineticEnergyKind::Euclidean, KineticEnergyKind::ExactNormal, KineticEnergyKind::Microcanonical]),
        num_chains: random_u64(rng) as usize,
        seed: random_u64(rng),
        extra_doublings: random_u64(rng),
    }
}

fn lit_mclmc<A: std::fmt::Debug + Copy + Default + serde::Serialize>(rng: &mut HRng, a: A) -> MclmcSettings<A> {
    MclmcSettings {
        step_size: random_f64(rng),
        momentum_decoherence_length: random_f64(rng),
        num_tune: random_u64(rng),
        num_draws: random_u64(rng),
        num_chains: random_u64(rng) as usize,
        seed: random_u64(rng),
        max_energy_error: random_f64(rng),
        store_unconstrained: rng.bool(0.5),
        store_gradient: rng.bool(0.5),
        store_transformed: rng.bool(0.5),
        store_divergences: rng.bool(0.5),
        adapt_options: a,
        subsample_frequency: random_f64(rng),
        dynamic_step_size: rng.bool(0.5),
        trajectory_kind: *rng.choose(&[
            MclmcTrajectoryKind::Microcanonical,
            MclmcTrajectoryKind::Euclidean,
            MclmcTrajectoryKind::EuclideanEarlyThenMicrocanonical,
        ]),
        trajectory_switch_fraction: random_f64(rng),
    }
}

/// Debug renderings of (original, value round trip, string round trip).
fn lit_round_trip<S: Settings + std::fmt::Debug>(s: S) -> Result<(String, String, String, String), String> {
    let v = serde_json::to_value(s).map_err(|e| format!("to_value: {e}"))?;
    let a: S = serde_json::from_value(v).map_err(|e| format!("from_value: {e}"))?;
    let txt = serde_json::to_string(&s).map_err(|e| format!("to_string: {e}"))?;
    let b: S = serde_json::from_str(&txt).map_err(|e| format!("from_str: {e}"))?;
    Ok((format!("{s:#?}"), format!("{a:#?}"), format!("{b:#?}"), txt))
}

fn struct_case(report: &mut Report, preset: Preset, seed: u64) {
    report.eval();
    let pname = preset.name();
    let mut rng = HRng::new(seed);
    let replay = json!({"kind": "struct", "preset": pname, "seed": seed});
    let r = match preset {
        Preset::DiagNuts => { let a = lit_diag(&mut rng); let a = lit_euclid(&mut rng, a); lit_round_trip(lit_nuts(&mut rng, a)) }
        Preset::LowRankNuts => { let a = lit_lowrank(&mut rng); let a = lit_euclid(&mut rng, a); lit_round_trip(lit_nuts(&mut rng, a)) }
        Preset::FlowNuts => { let a = lit_flow(&mut rng); lit_round_trip(lit_nuts(&mut rng, a)) }
        Preset::DiagMclmc => { let a = lit_diag(&mut rng); let a = lit_euclid(&mut rng, a); lit_round_trip(lit_mclmc(&mut rng, a)) }
        Preset::LowRankMclmc => { let a = lit_lowrank(&mut rng); let a = lit_euclid(&mut rng, a); lit_round_trip(lit_mclmc(&mut rng, a)) }
        Preset::FlowMclmc => { let a = lit_flow(&mut rng); lit_round_trip(lit_mclmc(&mut rng, a)) }
    };
    match r {
        Err(e) => report.violation(format!("C19:{pname}:roundtrip_error"), e, replay),
        Ok((orig, via_value, via_string, txt)) => {
            let mut h = Fnv::new();
            h.str(pname).str(&txt);
            report.nontrivial(h.finish());
            report.count("struct_fields_compared", orig.lines().count() as u64);
            for (which, other) in [("value", &via_value), ("string", &via_string)] {
                if &orig != other {
                    let line = orig.lines().zip(other.lines()).find(|(a, b)| a != b).map(|(a, b)| format!("{} -> {}", a.trim(), b.trim())).unwrap_or_default();
                    let field = line.split(':').next().unwrap_or("").trim().to_string();
                    report.violation(format!("C19:{pname}:field_lost_in_{which}_roundtrip:{field}"), line, replay.clone());
                }
            }
        }
    }
}

pub fn run(args: &Args, report: &mut Report) {
    report.rule = "per preset: (a) every leaf of the default settings JSON replaced by a random finite value of its type (all enum \
        variants, null/number for options) -> from_value/to_value and to_string/from_str/to_string must be identical; (b) random valid \
        settings -> chains from original, value-round-tripped and string-round-tripped settings, same seed, 45 draws, bitwise equal; \
        (c) sampler_settings attribute of the Zarr trace group (store root or a nested sub-group chosen per case) == to_value(settings); (d) settings built as Rust struct literals with every field random -> Debug rendering identical after both round trips; distinct = hash of the settings text".into();
    if let Some(r) = &args.replay {
        let preset = Preset::from_name(r["preset"].as_str().unwrap()).unwrap();
        let seed = r["seed"].as_u64().unwrap();
        match r["kind"].as_str().unwrap() {
            "roundtrip" => roundtrip_case(report, preset, seed),
            "chain" => chain_case(report, preset, seed),
            "struct" => struct_case(report, preset, seed),
            _ => zarr_case(report, preset, seed),
        }
        return;
    }
    let base = HRng::new(args.seed ^ 0xC19);
    let n_rt = report.size(12_000, 3_000_000);
    let n_chain = report.size(1200, 250_000);
    let n_zarr = report.size(120, 6000);
    crate::report::par_run(report, n_rt + n_chain + n_zarr + n_rt, |i, rep| {
        let preset = ALL_PRESETS[(i % 6) as usize];
        let seed = base.fork(i).next_u64();
        if i >= n_rt + n_chain + n_zarr {
            struct_case(rep, preset, seed)
        } else if i < n_rt {
            roundtrip_case(rep, preset, seed)
        } else if i < n_rt + n_chain {
            chain_case(rep, preset, seed)
        } else {
            zarr_case(rep, preset, seed)
        }
    });
}
